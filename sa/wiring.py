"""Def-use wiring of constructor sites (flow-sensitive reaching definitions on the structured AST).

For every function: at each point, each local name maps to the set of *source descriptors* of the definitions that
can reach it.  Descriptors are hashable, rename-invariant terms:

  ('call', method, ordinal)              result of self.<method>(...) - ordinal = index of that call site in source order
  ('tok', how, types|None, ordinal)      token returned by _advance/_expect/_accept/_peek (types from the literal argument)
  ('attr', d, name)                      attribute of something described by d       (tok.value, expr.coord ...)
  ('const', v)  ('param', name)  ('ctor', cls, ordinal)  ('list', (d...))  ('tuple', (d...))
  ('item', d, index)                     subscript / tuple component
  ('binop', op, d1, d2)  ('opaque', text)
Loop-carried definitions are included by iterating loop bodies to a fixpoint.
"""
from __future__ import annotations

import ast

from . import srcmodel as S

TOKEN_HELPERS = {"_advance", "_expect", "_accept", "_peek"}


def _copy_env(env):
    return {k: (set(v) if isinstance(v, set) else dict(v) if isinstance(v, dict) else v) for k, v in env.items()}


def _null_test(t):
    """(name, branch) when the test decides that a local is None / empty on that branch: `x is None`, `x is not None`, `not x`, `x`."""
    if isinstance(t, ast.Compare) and len(t.ops) == 1 and isinstance(t.left, ast.Name) and isinstance(t.comparators[0], ast.Constant) and t.comparators[0].value is None:
        if isinstance(t.ops[0], ast.Is):
            return t.left.id, True
        if isinstance(t.ops[0], ast.IsNot):
            return t.left.id, False
    if isinstance(t, ast.UnaryOp) and isinstance(t.op, ast.Not) and isinstance(t.operand, ast.Name):
        return t.operand.id, True
    if isinstance(t, ast.Name):
        return t.id, False
    return None


def _null_facts(t):
    """(facts on the then-branch, facts on the else-branch), a fact = (local name, is_none): `a is None or b`: else-branch knows a is not None;
    `a is not None and ...`: then-branch knows a is not None."""
    one = _null_test(t)
    if one is not None:
        name, none_when_true = one
        strict = isinstance(t, ast.Compare)          # `is None` tests decide None-ness exactly; truthiness tests only say "None or empty"
        return ([(name, none_when_true)] if strict or not none_when_true else []), ([(name, not none_when_true)] if strict or none_when_true else [])
    if isinstance(t, ast.BoolOp):
        parts = [_null_facts(v) for v in t.values]
        if isinstance(t.op, ast.Or):
            return [], [f for _th, el in parts for f in el]
        return [f for th, _el in parts for f in th], []
    if isinstance(t, ast.UnaryOp) and isinstance(t.op, ast.Not):
        th, el = _null_facts(t.operand)
        return el, th
    return [], []


def _apply_null_facts(env, facts):
    for name, is_none in facts:
        if name in env and isinstance(env[name], set):
            if is_none:
                env[name] = {("const", None)}
            else:
                rest = {d for d in env[name] if d != ("const", None)}
                if rest:
                    # a parameter known not to be None here keeps that knowledge (`param:#i!`): when the callers' arguments are followed into
                    # the callee, the alternative None does not reach this point
                    env[name] = {(d + ("nn",) if d[0] == "param" and len(d) == 2 else d) for d in rest}


def _peeked(d):
    """the ('tok', '_peek', ...) descriptor of the NEXT token inside d, if any"""
    if isinstance(d, tuple):
        if len(d) >= 2 and d[0] == "tok" and d[1] == "_peek" and d[2] in (None, 1):
            return d
        for x in d:
            r = _peeked(x)
            if r is not None:
                return r
    if isinstance(d, frozenset):
        for x in d:
            r = _peeked(x)
            if r is not None:
                return r
    return None


def _subst(d, old, new):
    """descriptor d with every occurrence of descriptor `old` replaced by `new`"""
    if d == old:
        return new
    if isinstance(d, tuple):
        return tuple(_subst(x, old, new) for x in d)
    if isinstance(d, frozenset):
        return frozenset(_subst(x, old, new) for x in d)
    return d


class Site:
    """One call expression of interest with the environment that reaches it."""

    def __init__(self, node, env, fn, ordinal, guards, args=(), kws=None, ctx=()):
        self.node, self.env, self.fn, self.ordinal, self.guards = node, env, fn, ordinal, guards
        self.args, self.kws = list(args), dict(kws or {})
        self.ctx = tuple(ctx)      # call sites through which an in-place interpreted helper / nested function was entered


class FnWiring:
    def __init__(self, fn, selfname="self", is_method=True):
        self.fn = fn
        self.is_method = is_method
        self.selfname = (fn.args.args[0].arg if fn.args.args else selfname) if is_method else "<none>"
        self.calls = []          # (node, descriptor) in source order
        self.ordinals = {}       # id(call node) -> ordinal among calls to the same callee
        self.sites = []          # Site objects for every Call node evaluated
        self.returns = []        # (Return node, descriptor set, guards)
        self.appends = {}        # name -> list of (descriptor set, method) appended/extended in source order
        self._count = {}
        self._inline_depth = 0
        # parameters of private helpers are named by position (renaming them is not a change); public entry points keep their names
        plist = fn.args.args[1:] if is_method else fn.args.args
        self.param_desc = {a.arg: ("param", f"#{i}" if fn.name.startswith("_") else a.arg) for i, a in enumerate(plist)}
        env = {a.arg: {self.param_desc[a.arg]} for a in plist}
        self.block(fn.body, env, ())

    # ------------------------------------------------------------------
    def _number_calls(self):
        return None        # (kept for callers; ordinals are now counted along paths, see _ord)

    def _ord(self, e, env):
        """Ordinals of this call among the calls to the same callee ALONG THE PATHS that reach it (not in source order): merging or duplicating
        branch tails, reordering branches and extracting / inlining helpers leave them unchanged.  Inside a loop the count saturates to 'k+'."""
        name = self._callee_name(e)
        cnt = env.setdefault("$cnt", {})
        cur = cnt.get(name, frozenset([0]))
        labels, new = set(), set()
        for c in cur:
            if isinstance(c, str):
                labels.add(c)
                new.add(c)
            else:
                labels.add(c)
                new.add(c + 1)
        cnt[name] = frozenset(new)
        return sorted(labels, key=str)

    def _callee_name(self, n):
        f = n.func
        if isinstance(f, ast.Attribute):
            return S.unparse(f)
        if isinstance(f, ast.Name):
            return f.id
        return S.unparse(f)[:30]

    # ------------------------------------------------------------------
    def ev(self, e, env, guards):
        """Set of descriptors the expression can evaluate to."""
        if e is None:
            return {("const", None)}
        if isinstance(e, ast.Constant):
            return {("const", e.value)}
        if isinstance(e, ast.Name):
            if e.id in env:
                if not getattr(self, "_in_test", False):
                    env.setdefault("$pend", set()).difference_update(env[e.id])
                return set(env[e.id])
            c_ = _module_constant(e.id)
            if c_ is not _NO:
                return {("const", c_)}      # a module-level name for a plain constant reads as the constant
            return {("global", e.id)}
        if isinstance(e, ast.Attribute):
            return {("attr", d, e.attr) for d in self.ev(e.value, env, guards)}
        if isinstance(e, ast.Call):
            return self.call(e, env, guards)
        if isinstance(e, (ast.List, ast.Tuple)):
            parts = [frozenset(self.ev(x, env, guards)) for x in e.elts]
            return {("list" if isinstance(e, ast.List) else "tuple", tuple(parts))}
        if isinstance(e, ast.Subscript):
            base = self.ev(e.value, env, guards)
            if isinstance(e.slice, ast.Constant):
                idx = e.slice.value
            elif not any(isinstance(n_, ast.Name) and n_.id in env for n_ in ast.walk(e.slice)):
                idx = S.unparse(e.slice)
            elif isinstance(e.slice, ast.Slice):
                # slice bounds computed from locals: named by their provenance, not by the variables
                idx = ("slice",) + tuple(frozenset(self.ev(b, env, guards)) if b is not None else None for b in (e.slice.lower, e.slice.upper, e.slice.step))
            else:
                idx = ("idx", frozenset(self.ev(e.slice, env, guards)))      # an index computed from locals: named by its provenance, not by the variable
            out = set()
            for d in base:
                if d[0] in ("tuple", "list") and isinstance(idx, int) and -len(d[1]) <= idx < len(d[1]):
                    out |= set(d[1][idx])
                elif d[0] == "dictmerge" and isinstance(idx, str):
                    hit = [v for k_, v in d[2] if k_ == idx]
                    if hit:
                        out |= set(hit[0])
                    else:
                        out |= {("item", b_, idx) for b_ in d[1]}      # the entry of the copied base object itself
                else:
                    out.add(("item", d, idx))
            return out
        if isinstance(e, ast.BinOp):
            l, r = self.ev(e.left, env, guards), self.ev(e.right, env, guards)
            return {("binop", type(e.op).__name__, a, b) for a in l for b in r}
        if isinstance(e, ast.BoolOp):
            out = set()
            for x in e.values:
                out |= self.ev(x, env, guards)
            return out
        if isinstance(e, ast.IfExp):
            self.ev(e.test, env, guards)
            return self.ev(e.body, env, guards) | self.ev(e.orelse, env, guards)
        if isinstance(e, ast.NamedExpr):
            v = self.ev(e.value, env, guards)
            env[e.target.id] = set(v)
            return v
        if isinstance(e, (ast.Compare, ast.UnaryOp)):
            for ch in ast.iter_child_nodes(e):
                if isinstance(ch, ast.expr):
                    self.ev(ch, env, guards)
            if isinstance(e, ast.Compare) or isinstance(e.op, ast.Not):
                return {("const", True), ("const", False)}      # a truth value: one of the two constants (which one is path-dependent)
            return {("bool",)}
        if isinstance(e, ast.JoinedStr):
            return {("str",)}
        if isinstance(e, ast.Dict):
            return {("dict", tuple((k.value if isinstance(k, ast.Constant) else "?", frozenset(self.ev(v, env, guards))) for k, v in zip(e.keys, e.values)))}
        if isinstance(e, (ast.ListComp, ast.GeneratorExp, ast.SetComp)):
            # a comprehension reads as: the element expression over each(<iterable>), kept where <condition>; the loop variable is named by its
            # provenance (an element of the iterable), so the form does not depend on its name
            env2 = dict(env)
            gens = []
            ok = True
            for g in e.generators:
                it = frozenset(self.ev(g.iter, env2, guards))
                if isinstance(g.target, ast.Name):
                    env2[g.target.id] = {("elem", d) for d in it}
                else:
                    for n_ in ast.walk(g.target):
                        if isinstance(n_, ast.Name):
                            env2[n_.id] = {("elem", ("opaque", "unpacked element"))}
                gens.append((it, tuple(self._cond(c, env2, guards) for c in g.ifs)))
            elt = frozenset(self.ev(e.elt, env2, guards))
            for k_ in ("$pend",):
                if k_ in env2:
                    env[k_] = env2[k_]
            return {("comp", elt, tuple(gens))}
        if isinstance(e, ast.Slice):
            return {("opaque", "slice")}
        if isinstance(e, ast.Starred):
            return self.ev(e.value, env, guards)
        return {("opaque", S.unparse(e)[:60])}

    def _cond(self, c, env, guards):
        """Structural form of a filter condition of a comprehension (what is compared with what)."""
        if isinstance(c, ast.UnaryOp) and isinstance(c.op, ast.Not):
            return ("not", self._cond(c.operand, env, guards))
        if isinstance(c, ast.BoolOp):
            return (type(c.op).__name__,) + tuple(self._cond(v, env, guards) for v in c.values)
        if isinstance(c, ast.Compare):
            return ("cmp", tuple(type(o).__name__ for o in c.ops), frozenset(self.ev(c.left, env, guards)), tuple(frozenset(self.ev(x, env, guards)) for x in c.comparators))
        return ("val", frozenset(self.ev(c, env, guards)))

    def call(self, e, env, guards):
        f = e.func
        saved = getattr(self, "_in_test", False)
        self._in_test = False
        args = [frozenset(self.ev(a, env, guards)) for a in e.args]
        kws = {k.arg: frozenset(self.ev(k.value, env, guards)) for k in e.keywords}
        self._in_test = saved
        if isinstance(f, ast.Attribute) and f.attr == "_reset":
            env["$pend"] = set()
        is_self_call = isinstance(f, ast.Attribute) and isinstance(f.value, ast.Name) and f.value.id == self.selfname
        if is_self_call and f.attr in INLINE and self._inline_depth < 3 and f.attr != self.fn.name:
            return self._inline(e, f.attr, args, kws, env, guards)
        if isinstance(f, ast.Name) and f.id in getattr(self, "localfns", {}) and self._inline_depth < 3 and INLINE_LOCAL:
            return self._inline(e, f.id, args, kws, env, guards, local=self.localfns[f.id])
        ords = self._ord(e, env)
        self.sites.append(Site(e, _copy_env(env), self.fn, ords[0], guards, args, kws, ctx=getattr(self, "_inline_ctx", ())))
        e._args, e._kws = args, kws
        if is_self_call:
            m = f.attr
            if m in TOKEN_HELPERS:
                types = None
                if e.args and isinstance(e.args[0], ast.Constant) and isinstance(e.args[0].value, (str, int)):
                    types = e.args[0].value
                restr = getattr(self, "_first_tok_restr", None)
                self._first_tok_restr = None          # only the first token operation of an inlined helper inherits the caller's look-ahead
                if restr is not None and m in ("_advance", "_expect", "_accept"):
                    res = {("tok", m, types, k, (e.lineno, e.col_offset), restr) for k in ords}
                else:
                    res = {("tok", m, types, k, (e.lineno, e.col_offset)) for k in ords}
                if m in ("_advance", "_expect") and len(res) == 1:
                    # the token consumed now is the one the last _peek() looked at: variables that hold the peeked token hold this token
                    new = next(iter(res))
                    for env_ in [env] + list(getattr(self, "_env_stack", [])):      # (the variables of the callers of an inlined helper too)
                        for name_, vals in list(env_.items()):
                            if isinstance(vals, set) and not name_.startswith("$"):
                                env_[name_] = {_subst(d, pk, new) if (pk := _peeked(d)) is not None else d for d in vals}
                return res
            if m == "_tok_coord" and args:
                return {("coordof", d) for d in args[0]}
            if m == "_coord":
                return {("coordof", ("opaque", "line/column"))}
            return {("call", m, k) for k in ords}
        if isinstance(f, ast.Attribute) and isinstance(f.value, ast.Name) and f.value.id == "c_ast":
            return {("ctor", f.attr, k) for k in ords}
        if isinstance(f, ast.Name):
            if f.id == "cast" and len(e.args) == 2:
                return set(args[1])
            if f.id == "dict":
                if args:
                    # dict(BASE, k=v, ...): a SHALLOW copy of BASE updated with the keywords - the values of BASE are shared with it
                    return {("dictmerge", frozenset(args[0]), tuple(sorted((k, v) for k, v in kws.items())))}
                return {("dict", tuple(sorted((k, v) for k, v in kws.items())))}
            if f.id in env:
                # call through a local: a class-valued variable (klass) or a nested function
                return {("ctorvar", d, k) for d in env[f.id] for k in ords}
            return {("fcall", f.id, k, tuple(args)) for k in ords}
        if isinstance(f, ast.Attribute):
            base = self.ev(f.value, env, guards)
            cargs = tuple(a.value if isinstance(a, ast.Constant) else "?" for a in e.args)
            return {("mcall", d, f.attr, cargs) for d in base}
        return {("opaque", S.unparse(e)[:60])}

    def _inline(self, e, m, args, kws, env, guards, local=None):
        """A private helper the reviewed reference does not know (extracted after the review): its body is interpreted in place, so the
        caller's wiring is what it was before the extraction.  (local: a nested function - it sees the variables of the enclosing call, and
        reads the same whether it stays a closure or becomes a method that is handed those variables as arguments.)"""
        callee = local if local is not None else METHODS[m]
        params = callee.args.args[1:] if local is None else callee.args.args
        defaults = dict(zip([p_.arg for p_ in reversed(params)], reversed(callee.args.defaults)))
        env2 = {"$cnt": env.setdefault("$cnt", {}), "$pend": set()}
        if local is not None:
            for k_, v_ in env.items():
                if not k_.startswith("$"):
                    env2[k_] = set(v_) if isinstance(v_, set) else v_
        for i, p_ in enumerate(params):
            if i < len(args):
                env2[p_.arg] = set(args[i])
            elif p_.arg in kws:
                env2[p_.arg] = set(kws[p_.arg])
            elif p_.arg in defaults:
                env2[p_.arg] = self.ev(defaults[p_.arg], {}, guards)
            else:
                env2[p_.arg] = {("opaque", "missing argument")}
        saved_ret, saved_fnname = self.returns, self.selfname
        self.returns = []
        if local is None:
            self.selfname = callee.args.args[0].arg if callee.args.args else self.selfname
        self._inline_depth += 1
        # the first token the helper consumes is the one its caller was looking at: the caller's look-ahead facts at this call apply to it
        self._first_tok_restr = (frozenset(CALL_LA.get((m, e.lineno), ())) or None) if local is None else None
        self._env_stack = getattr(self, "_env_stack", []) + [env]
        saved_ctx = getattr(self, "_inline_ctx", ())
        if local is not None:
            self._inline_ctx = saved_ctx + ((e.lineno, e.col_offset),)     # each call of a nested function is a construction site of its own
        try:
            out = self.block(callee.body, env2, guards)
        finally:
            self._inline_ctx = saved_ctx
            self._env_stack = self._env_stack[:-1]
            self._inline_depth -= 1
            rets, self.returns, self.selfname = self.returns, saved_ret, saved_fnname
        value = set()
        cnts = []
        for _st, v, _g, renv in rets:
            value |= set(v)
            cnts.append(renv.get("$cnt", {}))
        if out is not None:
            value.add(("const", None))
            cnts.append(out.get("$cnt", {}))
        merged = {}
        for c in cnts:
            for k_, v_ in c.items():
                merged[k_] = merged.get(k_, frozenset()) | v_
        names = set().union(*[set(c) for c in cnts]) if cnts else set()
        for k_ in names:
            for c in cnts:
                if k_ not in c:
                    merged[k_] = merged[k_] | frozenset([0])
        if cnts:
            env["$cnt"] = merged
        return value or {("const", None)}

    # ------------------------------------------------------------------
    def assign(self, t, v, env):
        if isinstance(t, ast.Name):
            env[t.id] = set(v)
            env.setdefault("$pend", set()).update(v)        # must-use: bound, not yet used
        elif isinstance(t, (ast.Tuple, ast.List)):
            for i, tt in enumerate(t.elts):
                comp = set()
                for d in v:
                    if d[0] in ("tuple", "list") and len(d[1]) == len(t.elts):
                        comp |= set(d[1][i])
                    elif d[0] == "elem" and d[1][0] == "appended" and d[1][2][0] in ("tuple", "list") and len(d[1][2][1]) == len(t.elts):
                        comp |= set(d[1][2][1][i])       # an element of a list of tuples that were appended: the i-th component of the appended tuple
                    elif d[0] == "elem" and d[1][0] in ("list", "tuple") and d[1][1] == ():
                        pass                             # the empty display the list started as has no elements
                    else:
                        comp.add(("item", d, i))
                self.assign(tt, comp, env)
        # attribute / subscript stores: recorded as mutations by the rules that care

    def _field_store(self, t, v, st, env, guards):
        """`obj.field = value` / `obj[const] = value` on something other than the instance itself: recorded with the appends (operation 'store'),
        together with the class tests on that very object under which the store happens."""
        if not isinstance(t, (ast.Attribute, ast.Subscript)):
            return
        if isinstance(t, ast.Subscript) and not isinstance(t.slice, ast.Constant):
            return
        def uncast(e):
            # cast(T, x) is x
            while isinstance(e, ast.Call) and isinstance(e.func, ast.Name) and e.func.id == "cast" and len(e.args) == 2:
                e = e.args[1]
            return e
        root = uncast(t)
        path = []
        while isinstance(root, (ast.Attribute, ast.Subscript)):
            path.append("." + root.attr if isinstance(root, ast.Attribute) else f"[{S.unparse(root.slice)}]")
            root = uncast(root.value)
        if not isinstance(root, ast.Name) or (self.is_method and root.id == self.selfname) or root.id not in env:
            return
        key = root.id + "".join(reversed(path))
        obj = S.unparse(uncast(t.value))
        cg = []
        for g in guards:
            if g[0] == "if" and len(g) > 3 and isinstance(g[3], ast.If):
                test, pos = g[3].test, g[2]
                if isinstance(test, ast.UnaryOp) and isinstance(test.op, ast.Not):
                    test, pos = test.operand, not pos
                if isinstance(test, ast.Call) and isinstance(test.func, ast.Name) and test.func.id == "isinstance" and len(test.args) == 2 and S.unparse(test.args[0]) == obj:
                    cls = sorted(S.unparse(c).split(".")[-1] for c in (test.args[1].elts if isinstance(test.args[1], ast.Tuple) else [test.args[1]]))
                    cg.append(("" if pos else "not ") + "|".join(cls))
        op = "store" + (f"[only if {' and '.join(cg)}]" if cg else "")
        self.appends.setdefault(key, []).append((frozenset(v), op, st, guards))
        self.append_roots = getattr(self, "append_roots", {})
        self.append_roots.setdefault(key, (root.id, set(), st.lineno))[1].update(d for d in env.get(root.id, ()) if d[0] != "appended")

    def merge(self, envs):
        out = {}
        for e in envs:
            for k, v in e.items():
                if k.startswith("$"):
                    continue
                out.setdefault(k, set()).update(v)
        out["$pend"] = set().union(*[e.get("$pend", set()) for e in envs])      # must-use: pending on any joining path
        cnt = {}
        names = set().union(*[set(e.get("$cnt", {})) for e in envs]) if envs else set()
        for k in names:
            cnt[k] = frozenset().union(*[e.get("$cnt", {}).get(k, frozenset([0])) for e in envs])
        out["$cnt"] = cnt
        return out

    def block(self, body, env, guards):
        """Returns the environment after the block, or None when every path left it (return / raise / break / continue)."""
        for st in body:
            env = self.stmt(st, env, guards)
            if env is None:
                return None
        return env

    def stmt(self, st, env, guards):
        if isinstance(st, ast.Expr):
            v = self.ev(st.value, env, guards)
            c = st.value
            if isinstance(c, ast.Call) and isinstance(c.func, ast.Attribute) and c.func.attr in ("append", "extend", "insert") and c.args:
                base = c.func.value
                root = base
                while isinstance(root, (ast.Attribute, ast.Subscript)):
                    root = root.value
                if isinstance(root, ast.Name):
                    key = S.unparse(base)
                    self.appends.setdefault(key, []).append((frozenset(c._args[-1]), c.func.attr, c, guards))
                    self.append_roots = getattr(self, "append_roots", {})
                    self.append_roots.setdefault(key, (root.id, set(), c.lineno))[1].update(d for d in env.get(root.id, ()) if d[0] != "appended")
                    if isinstance(base, ast.Name) and base.id in env and all(d[0] in ("list", "tuple", "const", "appended") for d in env[base.id]):
                        # (a local LIST that is being filled; a local that merely names a list living in a node - `items = node.block_items` -
                        # reads as that path, whatever is appended through it)
                        env[base.id] = set(env[base.id]) | {("appended", c.func.attr, d) for d in c._args[-1]}
            if self._noreturn(c):
                return None
            return env
        if isinstance(st, ast.Assign):
            v = self.ev(st.value, env, guards)
            for t in st.targets:
                self.assign(t, v, env)
                self._field_store(t, v, st, env, guards)
            return env
        if isinstance(st, ast.AnnAssign):
            if st.value is not None:
                v = self.ev(st.value, env, guards)
                self.assign(st.target, v, env)
                self._field_store(st.target, v, st, env, guards)
            return env
        if isinstance(st, ast.AugAssign):
            v = self.ev(st.value, env, guards)
            if isinstance(st.target, ast.Name):
                env[st.target.id] = set(env.get(st.target.id, set())) | {("aug", type(st.op).__name__, d) for d in v}
            return env
        if isinstance(st, ast.Return):
            v = self.ev(st.value, env, guards) if st.value is not None else {("const", None)}
            self.returns.append((st, v, guards, {k: (set(x) if isinstance(x, set) else x) for k, x in env.items()}))
            return None
        if isinstance(st, ast.Raise):
            return None
        if isinstance(st, ast.If):
            self._in_test = True
            self.ev(st.test, env, guards)
            self._in_test = False
            g = S.unparse(st.test)
            ea, eb = _copy_env(env), _copy_env(env)
            nul = _null_test(st.test)
            if nul and nul[0] in env:
                # on the branch where the variable is None / empty nothing it stands for can be lost
                (ea if nul[1] else eb).setdefault("$pend", set()).difference_update(env[nul[0]])
            th_facts, el_facts = _null_facts(st.test)
            _apply_null_facts(ea, th_facts)
            _apply_null_facts(eb, el_facts)
            a = self.block(st.body, ea, guards + (("if", g, True, st),))
            b = self.block(st.orelse, eb, guards + (("if", g, False, st),))
            outs = [x for x in (a, b) if x is not None]
            return self.merge(outs) if outs else None
        if isinstance(st, (ast.While, ast.For)):
            cur = _copy_env(env)
            # `flag = True; while flag:` - the body runs at least once (the do-while idiom): the state before the loop is not a state after it
            entered = False
            if isinstance(st, ast.While) and isinstance(st.test, ast.Name) and st.test.id in env:
                vals = env[st.test.id]
                entered = bool(vals) and all(d[0] == "const" and bool(d[1]) for d in vals if isinstance(d, tuple) and len(d) == 2) and all(isinstance(d, tuple) and len(d) == 2 and d[0] == "const" for d in vals)
            rounds = []
            for _ in range(4):
                e2 = _copy_env(cur)
                if isinstance(st, ast.While):
                    self._in_test = True
                    self.ev(st.test, e2, guards)
                    self._in_test = False
                else:
                    it = self.ev(st.iter, e2, guards)
                    self.assign(st.target, {("elem", d) for d in it}, e2)
                self._loop_exits = getattr(self, "_loop_exits", [])
                self._loop_exits.append([])
                out = self.block(st.body, e2, guards + (("loop", st.lineno, True, st),))
                exits = self._loop_exits.pop()
                rounds = ([out] if out is not None else []) + [x for kind, x in exits if kind == "continue"]     # (the last round runs on the saturated state and subsumes the earlier ones)
                nxt = self.merge([cur] + ([out] if out is not None else []) + [x for kind, x in exits if kind == "continue"])
                # a count that grows in the loop saturates: 'k+' = k or more calls so far on this path
                for k_, v_ in list(nxt.get("$cnt", {}).items()):
                    before = cur.get("$cnt", {}).get(k_, frozenset([0]))
                    if v_ != before:
                        ints = [x for x in before | v_ if not isinstance(x, str)]
                        sat = {x for x in before | v_ if isinstance(x, str)}
                        lo = min(ints) if ints else None
                        if lo is not None:
                            sat = {f"{min([lo] + [int(x[:-1]) for x in sat])}+"}
                        nxt["$cnt"][k_] = frozenset(sat)
                if nxt == cur:
                    break
                cur = nxt
            if entered:
                tail = rounds + [x for kind, x in exits if kind == "break"]
                after = self.merge(tail) if tail else None
            else:
                after = self.merge([cur] + [x for kind, x in exits if kind == "break"])
            # `while True` loops are left only through break / return
            if isinstance(st, ast.While) and isinstance(st.test, ast.Constant) and st.test.value is True:
                br = [x for kind, x in exits if kind == "break"]
                return self.merge(br) if br else None
            return after
        if isinstance(st, (ast.Break, ast.Continue)):
            if getattr(self, "_loop_exits", None):
                self._loop_exits[-1].append(("break" if isinstance(st, ast.Break) else "continue", _copy_env(env)))
            return None
        if isinstance(st, ast.Match):
            self.ev(st.subject, env, guards)
            outs = []
            exhaustive = False
            for case in st.cases:
                g = S.unparse(case.pattern) + (" if " + S.unparse(case.guard) if case.guard is not None else "")
                e2 = _copy_env(env)
                if case.guard is not None:
                    self.ev(case.guard, e2, guards)
                o = self.block(case.body, e2, guards + (("case", g, True, case),))
                if o is not None:
                    outs.append(o)
                if isinstance(case.pattern, ast.MatchAs) and case.pattern.pattern is None and case.guard is None:
                    exhaustive = True
            if not exhaustive:
                outs.append(env)
            return self.merge(outs) if outs else None
        if isinstance(st, ast.Assert):
            self._in_test = True
            self.ev(st.test, env, guards)
            self._in_test = False
            return env
        if isinstance(st, ast.FunctionDef):
            env[st.name] = {("localfn", st.name)}
            self.localfns = getattr(self, "localfns", {})
            self.localfns[st.name] = st
            return env
        if isinstance(st, (ast.Pass, ast.Delete, ast.Global, ast.Nonlocal)):
            return env
        if isinstance(st, (ast.With, ast.Try)):
            return self.block(st.body, env, guards)
        return env

    def _noreturn(self, c):
        return isinstance(c, ast.Call) and isinstance(c.func, ast.Attribute) and c.func.attr in ("_parse_error", "_parse_pp_directive")


_cache = {}
CALL_LA = {}          # (callee, line of call) -> look-ahead set at that call (from the grammar model), set by wirecheck
INLINE = set()        # names of private helpers to interpret in place (set by wirecheck: methods the reviewed reference does not know)
METHODS = {}          # name -> FunctionDef of the analysed class


_NO = object()
_modconsts = {}


def _module_constant(name):
    """value of a module-level name bound exactly once to a str / int / bool / None literal in c_parser.py or ast_transforms.py, else _NO"""
    if name not in _modconsts:
        val = _NO
        for modname in ("c_parser", "ast_transforms"):
            try:
                mod = S.module(modname)
            except Exception:
                continue
            sts = mod.assigns.get(name, [])
            if len(sts) == 1:
                v = getattr(sts[0], "value", None)
                if isinstance(v, ast.Constant) and (v.value is None or isinstance(v.value, (str, int, bool))):
                    val = v.value
        _modconsts[name] = val
    return _modconsts[name]


def of(modname, cls, method):
    key = (modname, cls, method)
    if key not in _cache:
        mod = S.module(modname)
        fn = mod.method(cls, method) if cls else mod.function(method)
        _cache[key] = FnWiring(fn, is_method=bool(cls))
    return _cache[key]


def ctor_sites(w: FnWiring, cname=None):
    """Constructor call sites c_ast.X(...) (and calls through a class-valued local) of a function, in source order."""
    out = []
    for s in w.sites:
        f = s.node.func
        if isinstance(f, ast.Attribute) and isinstance(f.value, ast.Name) and f.value.id == "c_ast":
            if cname is None or f.attr == cname:
                out.append(s)
    return sorted(out, key=lambda s: (s.node.lineno, s.node.col_offset))


def field_args(site, fields):
    """Map constructor arguments to field names (fields = cfg entries + ['coord'])."""
    out = {}
    for i, a in enumerate(site.node._args):
        if i < len(fields):
            out[fields[i]] = a
    for k, v in site.node._kws.items():
        out[k] = v
    return out


TOKSITES = None
INLINE_LOCAL = True      # nested functions are interpreted at their call sites


def simplify(d):
    """Table-friendly normal form of a descriptor.  Tokens are rendered by the set of token types the call site can consume
    on a live path (from the grammar model), so the form is invariant under renaming and reordering of branches."""
    k = d[0]
    if k == "call":
        return f"{d[1]}#{d[2]}"
    if k == "tok":
        if d[1] == "_peek":
            return "peek"
        ts = (TOKSITES or {}).get(d[4]) if len(d) > 4 else None
        if ts and len(d) > 5 and d[5]:
            ts = set(ts) & set(d[5])
        if ts:
            return "tok{" + ",".join(sorted(ts)) + "}"
        return "tok{" + (d[2] or "?") + "}"
    if k == "attr":
        return f"{simplify(d[1])}.{d[2]}"
    if k == "coordof":
        return f"coord({simplify(d[1])})"
    if k == "const":
        return repr(d[1])
    if k == "param":
        return f"param:{d[1]}" + ("!" if len(d) > 2 else "")
    if k == "ctor":
        return f"new:{d[1]}#{d[2]}"
    if k in ("list", "tuple"):
        return "[" + ", ".join("|".join(sorted(simplify(x) for x in part)) for part in d[1]) + "]"
    if k == "item":
        if isinstance(d[2], tuple) and d[2] and d[2][0] == "idx":
            return f"{simplify(d[1])}[" + "|".join(sorted(simplify(x) for x in d[2][1])) + "]"
        if isinstance(d[2], tuple) and d[2] and d[2][0] == "slice":
            return f"{simplify(d[1])}[" + ":".join("" if b is None else "|".join(sorted(simplify(x) for x in b)) for b in d[2][1:3]) + ("" if d[2][3] is None else ":" + "|".join(sorted(simplify(x) for x in d[2][3]))) + "]"
        return f"{simplify(d[1])}[{d[2]}]"
    if k == "binop":
        return f"({simplify(d[2])} {d[1]} {simplify(d[3])})"
    if k == "appended":
        return f"+{d[1]}({simplify(d[2])})"
    if k == "elem":
        return f"each({simplify(d[1])})"
    if k == "comp":
        def alt(ds):
            return "|".join(sorted(simplify(x) for x in ds))
        def cond(c):
            if c[0] == "not":
                return "not " + cond(c[1])
            if c[0] in ("And", "Or"):
                return "(" + f" {c[0].lower()} ".join(cond(x) for x in c[1:]) + ")"
            if c[0] == "cmp":
                return alt(c[2]) + "".join(f" {o} {alt(x)}" for o, x in zip(c[1], c[3]))
            return alt(c[1])
        return "comp(" + alt(d[1]) + "".join(" over " + alt(it) + "".join(" if " + cond(c) for c in cs) for it, cs in d[2]) + ")"
    if k == "ctorvar":
        return f"newvar({simplify(d[1])})#{d[2]}"
    if k == "mcall":
        return f"{simplify(d[1])}.{d[2]}({', '.join(repr(a) for a in (d[3] if len(d) > 3 else ()))})"
    if k == "fcall":
        return f"{d[1]}(...)#{d[2]}"
    if k == "global":
        return f"global:{d[1]}"
    if k == "dict":
        return "{" + ", ".join(f"{a}: " + "|".join(sorted(simplify(x) for x in b)) for a, b in d[1]) + "}"
    if k == "dictmerge":
        return "{**" + "|".join(sorted(simplify(x) for x in d[1])) + (", " if d[2] else "") + ", ".join(f"{a}: " + "|".join(sorted(simplify(x) for x in b)) for a, b in d[2]) + "}"
    return str(k)


def simp_set(ds):
    out = set()
    for d in ds:
        out |= _expand_tokens(_collapse(simplify(d)))
    return sorted(out)


_TOKSET = None


def _expand_tokens(text):
    """`tok{A,B}` - a token that is an A or a B - reads as the two alternatives `tok{A}` and `tok{B}`: whether one call site consumes either
    type (`_expect(TABLE[kind])`) or two sites consume one each (`if kind == ...: _expect("A") else: _expect("B")`) is the same set of values.
    (At most 64 combinations per value; beyond that the set is kept as it is.)"""
    global _TOKSET
    import itertools
    import re
    if _TOKSET is None:
        _TOKSET = re.compile(r"tok\{([A-Z0-9_]+(?:,[A-Z0-9_]+)+)\}")
    ms = list(_TOKSET.finditer(text))
    if not ms:
        return {text}
    # occurrences of the same set inside one value denote the same token: they vary together
    groups = []
    for m in ms:
        if m.group(1) not in groups:
            groups.append(m.group(1))
    n = 1
    for g_ in groups:
        n *= len(g_.split(","))
    if n > 64:
        return {text}
    out = set()
    for combo in itertools.product(*[g_.split(",") for g_ in groups]):
        t = text
        for g_, c in zip(groups, combo):
            t = t.replace("tok{" + g_ + "}", "tok{" + c + "}")
        out.add(t)
    return out


import re as _re
_ACC = _re.compile(r"(_add_declaration_specifier)#\d+\+?")


def _collapse(text):
    """Accumulator results threaded through many call sites (spec = add(spec, ...)) are not told apart by ordinal."""
    text = _ACC.sub(r"\1#*", text)
    # a|b|c lists produced inside list/tuple renderings: dedupe after collapsing
    def dedupe(m):
        parts = sorted(set(m.group(0).split("|")))
        return "|".join(parts)
    return _re.sub(r"[^\[\], ]+(?:\|[^\[\], ]+)+", dedupe, text)
