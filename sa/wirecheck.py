"""Comparison of the constructor wiring found in the parser with the reviewed reference (sa/wiring_ref.json)."""
from __future__ import annotations

import ast
import json
import os

from . import astspec as A
from . import e1
from . import srcmodel as S
from . import wiring as W
from .core import VERIF, AnalysisError

REF_PATH = os.path.join(VERIF, "sa", "wiring_ref.json")
MODULES = [("c_parser", "CParser"), ("ast_transforms", None)]


BUILDERS = {"_type_modify_decl", "_add_declaration_specifier", "_build_declarations", "_build_function_definition", "_build_parameter_declaration",
            "_fix_decl_name_type", "_add_identifier", "_add_typedef_name", "_push_scope", "_pop_scope", "_parse_error"}
BUILDER_FUNCS = {"fix_switch_cases", "fix_atomic_specifiers", "_extract_nested_case", "_fix_atomic_specifiers_once"}


def _sites_of_interest(w, spec):
    """(label, node, field->provenance) for constructor calls, calls of nested functions, and calls of the builder helpers."""
    out = []
    seen = set()
    ordered = sorted(w.sites, key=lambda s: (s.node.lineno, s.node.col_offset, getattr(s, "ctx", ())))
    merged = {}
    for s in ordered:
        merged.setdefault((id(s.node), getattr(s, "ctx", ())), []).append(s)
    for s in ordered:
        n = s.node
        if (id(n), getattr(s, "ctx", ())) in seen:
            continue
        seen.add((id(n), getattr(s, "ctx", ())))
        f = n.func
        label = None
        names = None
        if isinstance(f, ast.Attribute) and isinstance(f.value, ast.Name) and f.value.id == "c_ast":
            label, names = f.attr, spec.get(f.attr, [])
        elif isinstance(f, ast.Name) and f.id in getattr(w, "localfns", {}):
            label = "fn:" + f.id          # renamed to fn#k (rename-invariant) by _one
            names = [f"p{i}" for i, _ in enumerate(w.localfns[f.id].args.args)]
            pn = [a.arg for a in w.localfns[f.id].args.args]
            n._kwmap = {kname: f"p{pn.index(kname)}" for kname in pn}
        elif isinstance(f, ast.Attribute) and isinstance(f.value, ast.Name) and f.value.id == w.selfname and f.attr in BUILDERS:
            label = "call:" + f.attr
            cm = S.module("c_parser").methods("CParser").get(f.attr)
            names = _positional(n, [a.arg for a in cm.args.args[1:]]) if cm is not None else None
            n._callee_def = cm
        elif isinstance(f, ast.Attribute) and isinstance(f.value, ast.Name) and f.value.id == w.selfname and f.attr.startswith(("_parse_", "_try_parse_")) and (n.args or n.keywords) \
                and f.attr not in ("_parse_error",):
            # data handed to another production through its parameters (the callee builds nodes from it)
            cm = S.module("c_parser").methods("CParser").get(f.attr)
            if cm is not None and any(not isinstance(a, ast.Constant) for a in list(n.args) + [k.value for k in n.keywords]):
                label = "call:" + f.attr
                names = _positional(n, [a.arg for a in cm.args.args[1:]])
        elif isinstance(f, ast.Name) and f.id in BUILDER_FUNCS:
            label = "call:" + f.id
            cf = S.module("ast_transforms").functions.get(f.id)
            names = _positional(n, [a.arg for a in cf.args.args]) if cf is not None else None
        elif isinstance(f, ast.Name) and any(d[0] == "call" and d[1] == "_select_struct_union_class" for d in s.env.get(f.id, ())):
            label, names = "Struct|Union", spec.get("Struct", [])
        if label is None:
            continue
        fa = {}
        for s2 in merged[(id(n), getattr(s, "ctx", ()))]:
            for i, a in enumerate(s2.args):
                k = names[i] if names and i < len(names) else f"arg{i}"
                fa.setdefault(k, set()).update(a)
            kwmap = getattr(n, "_kwmap", {})
            for k, v in s2.kws.items():
                fa.setdefault(kwmap.get(k, k), set()).update(v)
        # a parameter that the call leaves to its (constant) default receives that constant: `f(x)` and `f(x, flag=False)` are the same call
        cdef = getattr(n, "_callee_def", None)
        if cdef is not None:
            pa = cdef.args.args[1:] if (cdef.args.args and cdef.args.args[0].arg == "self") else cdef.args.args
            dflt = cdef.args.defaults
            for i, a in enumerate(pa):
                j = i - (len(pa) - len(dflt))
                if j >= 0 and f"p{i}" not in fa and isinstance(dflt[j], ast.Constant):
                    fa[f"p{i}"] = {("const", dflt[j].value)}
        if label == "call:_add_declaration_specifier":
            fa.pop("p0", None)     # the accumulated specifier record itself (threaded through every call)
        rec = {k: _canon_seq(W.simp_set(v)) for k, v in sorted(fa.items())}
        if label.startswith(("call:", "fn:")):
            # an argument that carries a location (only coordinate values / None) is marked, so that coordinate rules find it without its name
            for k in list(rec):
                vals = rec[k]
                if vals and any(v.startswith("coord(") or v.endswith(".coord") for v in vals) and all(v.startswith("coord(") or v.endswith(".coord") or v in ("None", "global:self.clex.filename") for v in vals):
                    rec[k + "@coord"] = rec.pop(k)
        if label.startswith(("call:_parse_", "call:_try_parse_")) and label != "call:_parse_error" and all(_is_const_text(v) for vals in rec.values() for v in vals):
            continue        # only flags / constants are passed: nothing of the input flows through this call's parameters
        out.append([label, rec])
    return out


def _canon_seq(vals):
    """A list built as a display followed by appends in a loop - `[f(), f()]` then `.append(f())` per round, or `[f()]` then appends, or `[]`
    and appends only - holds the results of the successive calls of f in order whichever way it is spelled.  When position i of the list
    provably holds call #(i+c) of one callee from some position s on, the tail is rendered as one value `seq[s..]=callee#(i+c)`."""
    import re as _re
    disp = [v for v in vals if v.startswith("[") and v.endswith("]")]
    apps = [v for v in vals if v.startswith("+append(") and v.endswith(")")]
    if len(disp) != 1 or not apps or len(disp) + len(apps) != len(vals):
        return vals
    inner = disp[0][1:-1]
    # split the display at top-level commas
    elems, depth, cur = [], 0, ""
    for ch in inner:
        if ch in "([{":
            depth += 1
        elif ch in ")]}":
            depth -= 1
        if ch == "," and depth == 0:
            elems.append(cur.strip())
            cur = ""
        else:
            cur += ch
    if cur.strip():
        elems.append(cur.strip())
    parsed = [_re.fullmatch(r"(\w+)#(\d+)(\+?)", a[len("+append("):-1]) for a in apps]
    if not all(parsed) or len({m.group(1) for m in parsed}) != 1:
        return vals
    callee = parsed[0].group(1)
    ks = sorted({(int(m.group(2)), m.group(3)) for m in parsed})
    k0 = ks[0][0]
    if not set(ks) <= {(k0, ""), (k0, "+")}:
        return vals
    n = len(elems)
    c = k0 - n
    s_ = n
    while s_ > 0 and elems[s_ - 1] == f"{callee}#{s_ - 1 + c}" and s_ - 1 + c >= 0:
        s_ -= 1
    out = [f"seq[{i}]={elems[i]}" for i in range(s_)]
    out.append(f"seq[{s_}..]={callee}#(i{c:+d})")
    return sorted(out)


def _is_const_text(v):
    return v in ("True", "False", "None") or (len(v) >= 2 and v[0] == v[-1] and v[0] in "'\"") or v.lstrip("-").isdigit()


def _positional(call, pnames):
    """argument names of a call to a private helper, by position: p0, p1, ... (keyword arguments are mapped through the callee's signature)"""
    call._kwmap = {kname: f"p{pnames.index(kname)}" for kname in pnames}
    return [f"p{i}" for i in range(len(pnames))]


def _one(w, spec):
    recs = _sites_of_interest(w, spec)
    # nested function definitions: their own constructor sites, free variables shown as such
    for name, lf in ({} if W.INLINE_LOCAL else getattr(w, "localfns", {})).items():
        sub = W.FnWiring.__new__(W.FnWiring)
        sub.fn = lf
        sub.is_method = False
        sub.selfname = "self"
        sub.calls, sub.ordinals, sub.sites, sub.returns, sub.appends, sub._count = [], {}, [], [], {}, {}
        sub._inline_depth = 0
        env = {a.arg: {("param", f"#{i}")} for i, a in enumerate(lf.args.args)}
        sub.block(lf.body, env, ())
        for lab, fa in _sites_of_interest(sub, spec):
            recs.append([f"{name}>{lab}", fa])
    rets = set()
    for st, v, g, env in w.returns:
        rets |= set(W.simp_set(v))
    apps = {}
    accs = sorted({(ln, r) for r, ds, ln in getattr(w, "append_roots", {}).values() if not [d for d in ds if d[0] not in ("list", "tuple", "const")]})
    acc_order = []
    for _, r in accs:
        if r not in acc_order:
            acc_order.append(r)
    transient = set()
    for r in acc_order:
        # a local list that is only filled and then iterated / tested inside the function (`stars = []; stars.append(..); for a, b in stars:`) is scaffolding:
        # what it carries is compared where it arrives (the fields built from its elements), not as a list of its own
        loads = [n for n in ast.walk(w.fn) if isinstance(n, ast.Name) and n.id == r and isinstance(n.ctx, ast.Load)]
        def scaffolding(n):
            par = getattr(n, "_parent", None)
            if isinstance(par, ast.For) and par.iter is n:
                return True
            if isinstance(par, ast.Attribute) and par.attr in ("append", "extend") and isinstance(getattr(par, "_parent", None), ast.Call):
                return True
            if isinstance(par, ast.UnaryOp) and isinstance(par.op, ast.Not):
                return True
            if isinstance(par, (ast.If, ast.While)) and par.test is n:
                return True
            if isinstance(par, ast.Call) and isinstance(par.func, ast.Name) and par.func.id == "len":
                return True
            return False
        if loads and all(scaffolding(n) for n in loads):
            transient.add(r)
    for tgt, lst in w.appends.items():
        if tgt in transient:
            continue
        seen_nodes = set()
        for provs, op, node, guards in lst:
            if id(node) in seen_nodes:
                continue
            seen_nodes.add(id(node))
            allp = set()
            for p2, op2, n2, _ in lst:
                if n2 is node:
                    allp |= set(p2)
            apps.setdefault(_norm_target(w, tgt, acc_order), []).append([W.simp_set(allp), op])
    # a local accumulator that starts as a list display and then only grows by appends of the successive results of ONE callee holds the same
    # sequence whether an element is written into the display or appended (`[a, f()]` + append(f()) per round  ==  `[a]` + append(f()) per round):
    # its appends are rendered in the canonical sequence form (see _canon_seq)
    roots = getattr(w, "append_roots", {})
    for tgt, lst in w.appends.items():
        if tgt not in roots:
            continue
        root, descs, _ln = roots[tgt]
        if tgt != root or root not in acc_order or len([d for d in descs if d[0] == "list"]) != 1 or any(d[0] != "list" for d in descs):
            continue
        if any(op != "append" for _p, op, _n, _g in lst):
            continue
        vals = W.simp_set(descs) + sorted({"+append(" + v + ")" for p2, _o, _n, _g in lst for v in W.simp_set(p2)})
        canon = _canon_seq(vals)
        if canon != vals:
            apps[_norm_target(w, tgt, acc_order)] = [[canon, "seq"]]
    # nested function names are local names: render them by definition order
    lf = sorted(getattr(w, "localfns", {}), key=lambda nme: w.localfns[nme].lineno)
    if lf:
        import re as _re

        def ren(text):
            for k, nme in enumerate(lf):
                text = _re.sub(r"(?<![A-Za-z0-9_])" + _re.escape(nme) + r"(?![A-Za-z0-9_])", f"fn#{k}", text)
            return text
        recs = [[ren(lab), {k: [ren(x) for x in v] for k, v in fa.items()}] for lab, fa in recs]
        rets = {ren(x) for x in rets}
        apps = {ren(k): [[[ren(x) for x in provs], op] for provs, op in v] for k, v in apps.items()}
    return recs, rets, apps


def _norm_target(w, key, acc_order):
    """Rename-invariant name of an append target: the provenance of its root variable instead of the variable's name."""
    roots = getattr(w, "append_roots", {})
    if key not in roots:
        return key
    root, descs, _ = roots[key]
    rest = key[len(root):]
    if root == w.selfname:
        return "self" + rest
    params = {a.arg for a in w.fn.args.args}
    if root in params and all(d[0] == "param" for d in descs):
        return "|".join(W.simp_set(descs)) + rest
    solid = [d for d in descs if d[0] not in ("list", "tuple", "const")]
    if solid:
        return "|".join(W.simp_set(solid)) + rest
    return f"acc#{acc_order.index(root)}" + rest


def current(for_reference=False):
    """method -> {'records': [[label, {field: [provenance...]}], ...], 'returns': [...], 'appends': {target: [[prov...], op]...}}

    Methods that the reviewed reference does not know (helpers extracted after the review) are interpreted in place in their callers,
    so an extraction leaves the callers' wiring as it was; they get no entry of their own."""
    if not for_reference and "cur" in _memo:
        return _memo["cur"]
    W.TOKSITES = e1.token_sites()
    W.CALL_LA = e1.call_la()
    px0 = S.module("c_parser")
    W.METHODS = dict(px0.methods("CParser"))
    known = None
    if not for_reference and os.path.exists(REF_PATH):
        with open(REF_PATH) as f:
            known = json.load(f).get("$methods")
    W.INLINE = set() if known is None else {m for m in W.METHODS if m not in known and m.startswith("_") and not m.startswith("__")}
    W._cache.clear()
    spec = {n: [e for e, _ in ents] + ["coord"] for n, ents, _ in A.parse_cfg()}
    out = {}
    px = S.module("c_parser")
    for m in px.methods("CParser"):
        if m in W.INLINE:
            continue
        recs, rets, apps = _one(W.of("c_parser", "CParser", m), spec)
        if recs or rets - {"None"} or apps:
            out[m] = {"records": recs, "returns": sorted(rets), "appends": apps}
    tx = S.module("ast_transforms")
    for m in tx.functions:
        recs, rets, apps = _one(W.of("ast_transforms", None, m), spec)
        out["ast_transforms." + m] = {"records": recs, "returns": sorted(rets), "appends": apps}
    _resolve_params(out)
    if for_reference:
        out["$methods"] = sorted(W.METHODS)
    else:
        _memo["cur"] = out
    return out


import re as _re_q
_ATOM = _re_q.compile(r"((?:_parse_\w+|_try_parse_\w+|new:\w+|newvar\([^()]*\)|[A-Za-z_][\w.]*\(\.\.\.\))#\d+\+?|#\(i[+-]\d+\)|tok\{[A-Z0-9_,]+\})(?!@)")


def _qualify_atoms(text, method):
    return _ATOM.sub(lambda m_: m_.group(1) + "@" + method, text)


def _resolve_params(out):
    """Data handed to a private production / builder through a parameter is followed into the callee: every `param:#i` of a callee whose call
    sites are recorded is replaced by the values the callers pass (one alternative each), and the argument then disappears from the call
    records.  What a node field receives is thus described in terms of tokens and production results, wherever the boundary between caller and
    callee is drawn: passing `tok` and computing `coord(tok)` inside, or passing `coord(tok)`, read the same; so do a callee that parses a
    sub-construct itself and one that is handed the parsed result.  (Arguments of parameters that no recorded value of the callee mentions -
    flags, values only tested - stay in the call records.)"""
    import copy
    import re
    pat = re.compile(r"param:#(\d+)")
    for m, info in out.items():
        # the call records as written (every argument still in place), for the rules that ask what a particular call site passes
        info["calls"] = copy.deepcopy([r for r in info["records"] if r[0].startswith(("call:", "fn:"))])

    def key_of(label):
        nm = label[len("call:"):]
        return nm if nm in out else ("ast_transforms." + nm if "ast_transforms." + nm in out else None)
    for _round in range(4):
        # values passed per (callee, parameter index)
        passed = {}
        for m, info in out.items():
            for lab, fa in info["records"]:
                if not lab.startswith("call:"):
                    continue
                callee = key_of(lab)
                if callee is None or callee == m:
                    continue
                for f_, vals in fa.items():
                    mm = re.fullmatch(r"p(\d+)(@coord)?", f_)
                    if mm:
                        # the atoms of a value (call results, constructed nodes, tokens - everything that carries an ordinal) keep the name of the caller
                        # they come from: ordinals are relative to the caller's paths, and the same text from two callers must not merge (a new
                        # alternative from one caller would hide behind the other's).  Wrappers around atoms (coord(...), .attr, [i]) are not
                        # marked, so computing them on either side of the call boundary reads the same
                        passed.setdefault((callee, int(mm.group(1))), set()).update(_qualify_atoms(v, m) for v in vals)
        if not passed:
            return
        changed = False
        used = set()

        def subst(m, text):
            idxs = {int(i) for i in pat.findall(text)}
            idxs = [i for i in sorted(idxs) if (m, i) in passed and not any(("param:#" in v) for v in passed[(m, i)])]
            if not idxs:
                return [text]
            res = [text]
            for i in idxs:
                alts = sorted(passed[(m, i)])
                if len(res) * len(alts) > 32:
                    return [text]
                used.add((m, i))
                nn_alts = [a for a in alts if a != "None"] or alts
                res = [re.sub(r"param:#%d(?!\d)" % i, lambda _m, a=a: a, re.sub(r"param:#%d!" % i, lambda _m, b=b: b, r)) for r in res for a in alts for b in nn_alts]
                res = sorted(set(res))
            # an attribute / coordinate of an absent value does not exist (the access would fail): such alternatives are infeasible
            res = [r for r in res if "coord(None)" not in r and "None." not in r] or res
            return res
        for m, info in out.items():
            if not any((m, i) in passed for i in range(8)):
                continue
            new_recs = []
            for lab, fa in info["records"]:
                if ">" in lab:
                    new_recs.append([lab, fa])      # a nested function's own records: its `param:#i` are its own parameters
                    continue
                nf = {}
                for f_, vals in fa.items():
                    nv = sorted({x for v in vals for x in subst(m, v)})
                    if nv != sorted(vals):
                        changed = True
                    nf[f_] = nv
                new_recs.append([lab, nf])
            info["records"] = new_recs
            nr = sorted({x for v in info["returns"] for x in subst(m, v)})
            if nr != sorted(info["returns"]):
                changed = True
            info["returns"] = nr
            na = {}
            for tgt, lst in info["appends"].items():
                for t2 in subst(m, tgt):
                    for provs, op in lst:
                        na.setdefault(t2, []).append([sorted({x for v in provs for x in subst(m, v)}), op])
            if na != info["appends"]:
                changed = True
            info["appends"] = na
        # the arguments that were followed into the callee leave the call records
        for m, info in out.items():
            keep = []
            for lab, fa in info["records"]:
                callee = key_of(lab) if lab.startswith("call:") else None
                if callee is not None and callee != m:
                    fa = {f_: v for f_, v in fa.items() if not ((mm := re.fullmatch(r"p(\d+)(@coord)?", f_)) and (callee, int(mm.group(1))) in used)}
                    if not fa:
                        changed = True
                        continue
                keep.append([lab, fa])
            if len(keep) != len(info["records"]) or any(a[1] != b[1] for a, b in zip(keep, info["records"])):
                changed = True
            info["records"] = keep
        if not changed:
            return


_memo = {}


def load_ref():
    if not os.path.exists(REF_PATH):
        raise AnalysisError("reviewed wiring reference sa/wiring_ref.json is missing")
    with open(REF_PATH) as f:
        ref = json.load(f)
    ref.pop("$methods", None)
    return ref


def _explode(recs):
    """Atomic records: one value per field (cartesian product), so that merging or splitting branches that build the same
    nodes does not change the compared normal form."""
    import itertools
    out = set()
    for c, f in recs:
        keys = sorted(f)
        vals = [f[k] if isinstance(f[k], list) and f[k] else [f[k]] for k in keys]
        size = 1
        for v in vals:
            size *= len(v)
        if size > 256:
            out.add((c, tuple((k, tuple(f[k])) for k in keys)))
            continue
        for combo in itertools.product(*vals):
            out.add((c, tuple(zip(keys, combo))))
    return out


def diff_method(ref_m, cur_m, field_filter, want_returns=True, want_appends=True, append_filter=None):
    """List of (kind, detail) differences between reference and current wiring of one method, restricted to selected fields."""
    out = []
    rr = [(c, {k: v for k, v in f.items() if field_filter(c, k)}) for c, f in ref_m.get("records", [])]
    cr = [(c, {k: v for k, v in f.items() if field_filter(c, k)}) for c, f in cur_m.get("records", [])]
    rr = [(c, f) for c, f in rr if f]
    cr = [(c, f) for c, f in cr if f]
    ra, ca = _explode(rr), _explode(cr)
    missing, extra = ra - ca, ca - ra
    if extra and not missing:
        # every reviewed combination is still there and there are more: branches with a common tail were merged into one constructor call
        # (the call then sees the union of what reaches it, so field values combine that never occurred together).  That is no change of
        # wiring as long as every field of every class still receives exactly the same set of values.  (The converse - combinations that
        # disappeared - is a lost flow and is reported.)
        def by_field(recs):
            d = {}
            for c, f in recs:
                for k, v in f:
                    d.setdefault((c, k), set()).add(v)
            return d
        if by_field(ra) == by_field(ca):
            missing, extra = set(), set()
    # pair leftovers of the same class by greatest agreement for a readable report
    missing_l = sorted(missing)
    for c, f in sorted(extra):
        fd = dict(f)
        best, score = None, -1
        for c2, f2 in missing_l:
            if c2 != c:
                continue
            f2d = dict(f2)
            sc = sum(1 for k in fd if fd.get(k) == f2d.get(k))
            if sc > score:
                best, score = (c2, f2), sc
        if best is None:
            out.append(("extra-node", f"{c}({fd})"))
        else:
            missing_l.remove(best)
            bd = dict(best[1])
            for k in sorted(set(fd) | set(bd)):
                if fd.get(k) != bd.get(k):
                    out.append(("field", f"{c}.{k}: expected {bd.get(k)} found {fd.get(k)}"))
    for c, f in missing_l:
        out.append(("missing-node", f"{c}({dict(f)})"))
    if want_returns and sorted(ref_m.get("returns", [])) != sorted(cur_m.get("returns", [])):
        out.append(("returns", f"expected {ref_m.get('returns')} found {cur_m.get('returns')}"))
    if want_appends:
        def norm_app(a):
            return sorted((tgt, tuple(sorted(p)), op) for tgt, lst in a.items() for provs, op in lst for p in [provs])
        ra2 = {(tgt, v, op) for tgt, lst in ref_m.get("appends", {}).items() for provs, op in lst for v in provs if append_filter is None or append_filter(tgt, op)}
        ca2 = {(tgt, v, op) for tgt, lst in cur_m.get("appends", {}).items() for provs, op in lst for v in provs if append_filter is None or append_filter(tgt, op)}
        if ra2 != ca2:
            out.append(("appends", f"expected {sorted(ra2 - ca2)} found {sorted(ca2 - ra2)}"))
    return out
