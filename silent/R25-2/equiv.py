"""Behaviour digest for the c_ast / _ast_gen / ast_transforms / __init__ area.

Run as:   cd <repo root> && /venv/bin/python equiv.py > out.txt

For every input prints either the AST dump with coordinates, repr() of the
AST, a structural walk (children() / __iter__ / NodeVisitor) and the generated
C, or the exception type and message.  Everything is deterministic.
"""

import glob
import hashlib
import io
import os
import sys
import tempfile

sys.path.insert(0, os.getcwd())
sys.setrecursionlimit(10000)

import pycparser  # noqa: E402
from pycparser import c_ast, c_generator, c_parser, parse_file, preprocess_file  # noqa: E402
from pycparser import _ast_gen, ast_transforms  # noqa: E402


def out(*a, **kw):
    print(*a, **kw)


def exc_line(e):
    return f"EXC {type(e).__name__}: {e}"


class CountingVisitor(c_ast.NodeVisitor):
    def __init__(self):
        self.log = []

    def visit_Constant(self, node):
        self.log.append(("C", node.type, node.value))

    def visit_ID(self, node):
        self.log.append(("I", node.name))

    def visit_Case(self, node):
        self.log.append(("case", len(node.stmts or [])))
        self.generic_visit(node)

    def visit_Default(self, node):
        self.log.append(("default", len(node.stmts or [])))
        self.generic_visit(node)

    def visit_TypeDecl(self, node):
        self.log.append(("T", node.declname, tuple(node.quals or [])))
        self.generic_visit(node)

    def visit_Decl(self, node):
        self.log.append(("D", node.name, tuple(node.quals or [])))
        self.generic_visit(node)


class PlainVisitor(c_ast.NodeVisitor):
    """No visit_XXX methods at all: everything goes through generic_visit."""

    def __init__(self):
        self.n = 0

    def generic_visit(self, node):
        self.n += 1
        super().generic_visit(node)


def walk(node, acc, depth=0):
    """children() and __iter__ must agree; record names and classes."""
    kids = node.children()
    it = list(node)
    assert len(kids) == len(it)
    for (nm, ch), ch2 in zip(kids, it):
        assert ch is ch2
        acc.append(f"{depth}:{nm}:{ch.__class__.__name__}:{ch.attr_names}")
        walk(ch, acc, depth + 1)


def show_variants(ast):
    variants = [
        dict(showcoord=True),
        dict(attrnames=True, nodenames=True),
        dict(attrnames=True, showemptyattrs=False, offset=3),
        dict(nodenames=True, showemptyattrs=False, showcoord=True),
    ]
    for kw in variants:
        buf = io.StringIO()
        ast.show(buf=buf, **kw)
        yield kw, buf.getvalue()


def digest_ast(ast, full=True):
    for kw, text in show_variants(ast):
        if full or kw == dict(showcoord=True):
            out(f"-- show {sorted(kw.items())}")
            out(text, end="")
        else:
            out(f"-- show {sorted(kw.items())} sha1", hashlib.sha1(text.encode()).hexdigest())
    r = repr(ast)
    if full:
        out("-- repr")
        out(r)
    else:
        out("-- repr sha1", hashlib.sha1(r.encode()).hexdigest())
    acc = []
    walk(ast, acc)
    w = "\n".join(acc)
    if full:
        out("-- walk")
        out(w)
    else:
        out("-- walk sha1", hashlib.sha1(w.encode()).hexdigest())
    cv = CountingVisitor()
    cv.visit(ast)
    pv = PlainVisitor()
    pv.visit(ast)
    out("-- visitor", pv.n, hashlib.sha1(repr(cv.log).encode()).hexdigest())
    if full:
        out(cv.log)
    out("-- generated")
    try:
        out(c_generator.CGenerator().visit(ast))
    except Exception as e:  # noqa: BLE001
        out(exc_line(e))


def run_text(label, text, filename="<snippet>", full=True):
    out("=" * 70)
    out("INPUT", label)
    try:
        ast = c_parser.CParser().parse(text, filename)
    except Exception as e:  # noqa: BLE001
        out(exc_line(e))
        return
    digest_ast(ast, full=full)


# ---------------------------------------------------------------------------
# 1. files
# ---------------------------------------------------------------------------
def files_section():
    paths = sorted(
        glob.glob("tests/c_files/**/*.[ch]", recursive=True)
        + glob.glob("examples/c_files/**/*.[ch]", recursive=True)
    )
    for p in paths:
        out("=" * 70)
        out("FILE", p)
        try:
            ast = parse_file(p)
        except Exception as e:  # noqa: BLE001
            out(exc_line(e))
            continue
        digest_ast(ast, full=True)


# ---------------------------------------------------------------------------
# 2. snippets
# ---------------------------------------------------------------------------
SWITCH_BODIES = [
    "",
    "{}",
    "{ ; }",
    "x = 1;",
    "case 1: x = 1;",
    "default: x = 1;",
    "{ case 1: x = 1; }",
    "{ default: ; }",
    "{ x = 0; case 1: x = 1; }",
    "{ x = 0; y = 0; case 1: x = 1; y = 2; z = 3; }",
    "{ case 1: case 2: x = 1; }",
    "{ case 1: case 2: case 3: case 4: x = 1; break; }",
    "{ case 1: default: x = 1; }",
    "{ default: case 1: x = 1; }",
    "{ default: case 1: case 2: default_: x = 1; }",
    "{ case 1: x = 1; case 2: x = 2; default: x = 3; }",
    "{ case 1: x = 1; break; case 2: case 3: x = 2; y = 3; break; default: break; }",
    "{ case 1: { x = 1; y = 2; } break; case 2: { case 3: x = 3; } }",
    "{ case 1: switch (y) { case 5: case 6: q = 1; r = 2; default: ; } case 2: x = 2; }",
    "{ int k; case 1: k = 1; p = k + 1; return 10; case 20: case 30: return 20; default: break; }",
    "{ case 1: if (x) case 2: y = 1; z = 2; }",
    "{ case 1: while (x) { case 2: y = 1; } z = 2; }",
    "{ lbl: case 1: x = 1; y = 2; }",
    "{ case 1: lbl: case 2: x = 1; y = 2; }",
    "{ case 'a': case 'b': ; case 'c': ; ; default: ; ; }",
    "{ case 1 ... 3: x = 1; }",
    "{ case 1: #pragma foo\n x = 1; case 2: ; }",
    "{ case A + 1: case (B): case sizeof(int): f(); g(); }",
    "{ default: default: x = 1; }",
    "{ case 1: for (;;) { break; } continue; case 2: do x--; while (x); goto lbl; }",
]

ATOMIC_DECLS = [
    "_Atomic(int) x;",
    "_Atomic(int) x, y;",
    "_Atomic(int) *x;",
    "_Atomic(int *) x;",
    "_Atomic(int *) *x, y[3];",
    "_Atomic int x;",
    "_Atomic int *x;",
    "int * _Atomic x;",
    "const _Atomic(int) x;",
    "_Atomic(int) const x;",
    "const _Atomic(const int) x;",
    "volatile const _Atomic(int) x, *y;",
    "_Atomic(_Atomic(int)) x;",
    "_Atomic(_Atomic(_Atomic(int) *) *) x;",
    "_Atomic(_Atomic(int) *) x, y;",
    "_Atomic(struct S) s;",
    "_Atomic(struct S { int a; _Atomic(int) b; }) s, t;",
    "_Atomic(union U { int a; float f; }) u;",
    "_Atomic(enum E { A, B }) e;",
    "_Atomic(struct { _Atomic(struct { int z; }) in; }) a, b;",
    "typedef _Atomic(int) atomic_int;",
    "typedef _Atomic(int) atomic_int, *atomic_int_p;",
    "typedef _Atomic(_Atomic(int) *) aip;",
    "typedef _Atomic int ai; ai v; _Atomic(ai) w;",
    "typedef int T; _Atomic(T) x; _Atomic(T *) y;",
    "_Atomic(int) f(void);",
    "_Atomic(int) f(_Atomic(int) a, _Atomic(int *) b);",
    "_Atomic(int) (*fp)(_Atomic(long));",
    "_Atomic(int) arr[10];",
    "_Atomic(int) arr[2][3], *parr[4];",
    "void f(void) { _Atomic(int) local = 3; _Atomic(int) a, b = 4; }",
    "void f(void) { for (_Atomic(int) i = 0; i < 3; i++) ; }",
    "struct S { _Atomic(int) a; _Atomic(int) b : 3; _Atomic(char *) c, d; };",
    "int x = sizeof(_Atomic(int));",
    "int x = (_Atomic(int)) 3;",
    "int x = _Alignof(_Atomic(long));",
    "static _Atomic(int) x; extern _Atomic(unsigned long) y;",
    "_Atomic(unsigned long long) x;",
    "_Atomic(int) x = 1, y = 2, z;",
    "_Atomic(int (*)(void)) fp;",
    "_Atomic(int [3]) x;",
    "_Atomic(int) _Atomic x;",
    "_Atomic _Atomic(int) x;",
    "_Atomic(const volatile int) * const restrict p;",
    "_Atomic(int);",
    "_Atomic(struct S);",
    "_Atomic(struct S { int a; });",
    "const struct S;",
    "_Atomic();",
    "_Atomic(int x;",
    "_Atomic(x) y;",
    "void f(_Atomic(int));",
    "void f(_Atomic(int) *, _Atomic(int) [3]);",
    "int f(a, b) _Atomic(int) a; _Atomic(int) b; { return a; }",
    "_Alignas(8) _Atomic(int) x;",
    "_Thread_local _Atomic(int) x;",
]

GENERAL = [
    "",
    ";",
    "int x;",
    "int x, *y, **z, a[3], (*b)[4], *c[5], f(int), (*g)(void);",
    "int x = 1 + 2 * 3 - 4 / 5 % 6;",
    "int f(void) { return a ? b : c ? d : e; }",
    "int f(void) { x = y = z += 3; a <<= 2; b |= c & d ^ e; }",
    "int f(void) { return a || b && c | d ^ e & f == g < h << i + j * k; }",
    "int f(void) { return -a + !b - ~c + *d - &e + ++f - --g + h++ - i--; }",
    "int f(void) { return sizeof x + sizeof(int) + sizeof(x) + _Alignof(int); }",
    "int f(void) { return a[1][2].b->c(d, e)(f)[3]; }",
    "int f(void) { return (int) (long) x + (char *) y; }",
    "int f(void) { return (a, b, c); }",
    "int f(void) { return (struct S) { 1, 2 }.a + (int [3]) { 1, 2, 3 }[0]; }",
    "int a[] = { 1, 2, [5] = 3, [6][7] = 4 }; struct S s = { .a = 1, .b.c = 2, .d[3] = 4 };",
    "int f(void) { return __builtin_offsetof(struct S, a.b[3].c); }",
    'char *s = "a" "b" "c"; wchar_t *w = L"x" L"y"; char c = \'a\'; int m = \'ab\';',
    "float f = 1.0f; double d = 1e10; long double ld = 0x1.8p3L; unsigned u = 10u; long l = 10L; int o = 017; int h = 0x1F; int b = 0b101;",
    "unsigned long long ull = 10ULL; long long ll = 10ll; unsigned long ul = 10uL;",
    "struct S { int a; struct T { int b; } t; union { int c; float d; }; int e : 3, : 2, f : 1; };",
    "struct S; union U; enum E; struct S *p; union U *q; enum E *r;",
    "enum E { A, B = 2, C = B + 1, D, };",
    "typedef int T; T x; T *f(T a, T b[]); typedef T (*FP)(T); FP fp;",
    "typedef struct { int x; } S; S s = { 1 }; S *ps = &s;",
    "typedef int T; void f(void) { T T; T = 3; }",
    "typedef int T; void f(int T) { T = 3; }",
    "typedef int T; struct S { T T; };",
    "int f(int a, ...); int g(); int h(void);",
    "int f(a, b) int a; char b; { return a + b; }",
    "void f(int a[static 10], int b[const], int c[restrict static 3], int d[*]);",
    "static inline int f(void) { return 0; } extern int g; register int r; _Noreturn void die(void);",
    "const int * const volatile * restrict p;",
    "int f(void) { if (a) b; else if (c) d; else e; }",
    "int f(void) { while (a) { if (b) continue; else break; } do { x++; } while (x < 10); }",
    "int f(void) { for (int i = 0, j = 1; i < 10; i++, j--) { } for (;;) ; for (i = 0; ; ) ; }",
    "int f(void) { goto l; l: x = 1; m: n: ; return; }",
    "int f(void) { int x; { int y; { int z; } } }",
    "int f(void) { ; ; {} }",
    "#pragma once\nint x;\n#pragma pack(push, 1)\nstruct S { int a; };\n#pragma pack(pop)\n",
    "void f(void) { _Pragma(\"omp parallel\") for (;;) ; }",
    "void f(void) {\n#pragma omp parallel\n for (;;) ; }",
    "_Static_assert(sizeof(int) == 4, \"int size\"); struct S { _Static_assert(1, \"x\"); int a; };",
    "_Alignas(16) int x; _Alignas(double) char buf[8]; struct S { _Alignas(8) int a; };",
    "int x = _Generic(y, int: 1, default: 2);",
    "void f(void) { x = a->b.c; y = (*p).q; z = &a[3]; w = *p++; }",
    "int (*(*f)(int))[3]; int *(*g[4])(char, ...); void (*signal(int, void (*)(int)))(int);",
    "void f(void) { int a = sizeof(int (*)[3]); b = (void (*)(void)) 0; }",
    "# 10 \"foo.c\"\nint x;\n# 20 \"bar.h\" 1\nint y;\n#line 30\nint z;\n",
    "#line 5 \"zz.c\"\nint x = ;\n",
    "int x;\n\n\n   int    y   ;\n\tint\tz\t;\n",
    "void f(void) { char c = '\\n'; char *s = \"\\t\\\"\\\\\"; int x = '\\x41' + '\\101'; }",
    "void f(void) { x = 1 ? 2 : 3; y = (1, 2) ? (3, 4) : (5, 6); }",
    "void f(void) { x = a < b > c <= d >= e != f == g; }",
    "long long unsigned int x; short int y; signed char z; unsigned w; long double v; _Bool b; _Complex double cd;",
    "__int128 x; unsigned __int128 y;",
    "int x = u8\"a\"[0]; char16_t *a = u\"x\"; char32_t *b = U\"y\";",
    "void f(void) { struct S { int a; } s; union U u; enum E { X } e; }",
    "int f(void) { return x.y.z + p->q->r + a[b[c[d]]]; }",
    "int f(int n) { int a[n]; int b[n][n * 2]; return sizeof a; }",
    "int main(int argc, char **argv) { printf(\"%d\\n\", argc); return 0; }",
    "void f(void) { x = (a); y = ((a)); z = (a + b) * c; w = a + (b * c); v = -(-a); u = - -a; t = !(!a); }",
    "void f(void) { x = a - (b - c); y = a / (b * c); z = (a = b) = c; w = a ? (b, c) : d; }",
    "void f(void) { x = *a.b; y = (*a).b; z = *(a.b); w = (&a)->b; v = &a->b; u = (int) a.b; t = ((int) a).b; }",
    "void f(void) { x = sizeof(a) + sizeof a.b + sizeof (a)->b + sizeof *p; }",
    "void f(void) { if (a) if (b) c; else d; }",
    "void f(void) { if (a) { if (b) c; } else d; }",
    "struct { int a; } x; union { int b; } y; enum { Z } z;",
    "int x[] = { [0 ... 3] = 1 };",
    "int *const *volatile p; int (*const fp)(void); int (* const * volatile fpp)(void);",
    "void f(void) { int i; for (i = 0; i < 3; ++i) switch (i) { case 0: break; default: continue; } }",
    "int f(void) { return 1",
    "int f(void) { return 1; ",
    "int f(void) { return ; } }",
    "int 3x;",
    "int x = 08;",
    "int x = 'a;",
    "int x = \"abc;",
    "int x = 1 +;",
    "int x = (1;",
    "int x[;",
    "struct { int a };",
    "struct S { };",
    "enum E { };",
    "int f(int, );",
    "int f(void) { case 1: ; }",
    "int f(void) { switch (x) case; }",
    "int f(void) { switch x { } }",
    "int f(void) { default ; }",
    "int f(void) { x = ; }",
    "int f(void) { if x; }",
    "int f(void) { for (;;;) ; }",
    "int f(void) { do x; while y; }",
    "typedef int T; T T;",
    "typedef int T; int T;",
    "int x; typedef int x;",
    "void f(void) { int y; typedef int y; }",
    "int @ x;",
    "int x = $;",
    "int x = 1 ? 2;",
    "int x = a ? : b;",
    "void f(void) { goto 3; }",
    "void f(void) { x = y z; }",
    "void f(void) { int; }",
    "void f(void) { x++ ++; }",
    "void f(void) { (int) ; }",
    "void f(void) { sizeof(); }",
    "void f(void) { x = sizeof(int; }",
    "_Static_assert(1);",
    "_Static_assert(, \"a\");",
    "_Alignas() int x;",
    "# 1 \"a.c\"\n# 3 \"b.c\"\n\nint x = @;\n",
    "#line\nint x;",
    "#line abc\nint x;",
    "# 12 abc\nint x;",
    "#pragma\nint x;",
    "int x; #pragma mid\n int y;",
    "/* comment */ int x;",
    "int x; // trailing",
]


def snippets_section():
    n = 0
    for i, body in enumerate(SWITCH_BODIES):
        src = "int f(int x)\n{\n  switch (x + 1)\n  " + body + "\n  return x;\n}\n"
        run_text(f"switch[{i}] {body!r}", src)
        n += 1
    for i, d in enumerate(ATOMIC_DECLS):
        run_text(f"atomic[{i}] {d!r}", d)
        n += 1
    for i, g in enumerate(GENERAL):
        run_text(f"general[{i}] {g!r}", g, filename=f"g{i}.c")
        n += 1
    # systematically generated: every binary operator, unary operator and
    # assignment operator, two layouts each (exercises coordinates)
    binops = ["+", "-", "*", "/", "%", "<<", ">>", "<", ">", "<=", ">=", "==", "!=", "&", "^", "|", "&&", "||"]
    for op in binops:
        run_text(f"binop {op}", f"int v = a {op} b {op} c;\nint w =\n   (a {op} 1)\n {op} (2 {op} b);\n")
        n += 1
    for op in ["=", "+=", "-=", "*=", "/=", "%=", "<<=", ">>=", "&=", "^=", "|="]:
        run_text(f"assign {op}", f"void f(void) {{ a {op} b {op} c; a[1] {op}\n  *p; }}\n")
        n += 1
    for op in ["-", "+", "!", "~", "*", "&", "++", "--", "sizeof"]:
        run_text(f"unop {op}", f"void f(void) {{ x = {op} a; y = {op}(a); z = {op} a[1]; }}\n")
        n += 1
    # nested case chains of growing depth (recursion in _extract_nested_case)
    for depth in (1, 2, 5, 17, 60):
        labels = " ".join(f"case {k}:" for k in range(depth))
        run_text(
            f"casechain {depth}",
            "void f(int x) { switch (x) { " + labels + " x = 1; y = 2; default: z = 3; } }",
            full=(depth <= 5),
        )
        n += 1
    # nested _Atomic of growing depth (fixed point loop in fix_atomic_specifiers)
    for depth in (1, 2, 3, 6, 12):
        t = "int"
        for _ in range(depth):
            t = f"_Atomic({t} *)"
        run_text(f"atomicdepth {depth}", f"const {t} a, *b;", full=(depth <= 3))
        n += 1
    out("SNIPPETS", n)


# ---------------------------------------------------------------------------
# 3. direct calls to the transforms and to hand-built nodes
# ---------------------------------------------------------------------------
def direct_section():
    out("=" * 70)
    out("DIRECT")

    def attempt(label, fn):
        try:
            r = fn()
            out(label, "->", r)
        except Exception as e:  # noqa: BLE001
            out(label, exc_line(e))

    # fix_switch_cases on hand-made trees
    sw1 = c_ast.Switch(c_ast.ID("x"), c_ast.ID("y"))
    attempt("switch non-compound", lambda: repr(ast_transforms.fix_switch_cases(sw1)))
    sw2 = c_ast.Switch(c_ast.ID("x"), c_ast.Compound(None))
    attempt("switch empty compound", lambda: repr(ast_transforms.fix_switch_cases(sw2)))
    attempt("switch wrong type", lambda: ast_transforms.fix_switch_cases(c_ast.ID("x")))
    sw3 = c_ast.Switch(
        c_ast.ID("x"),
        c_ast.Compound(
            [
                c_ast.ID("pre"),
                c_ast.Case(c_ast.Constant("int", "1"), [c_ast.Default([c_ast.Case(c_ast.ID("k"), [c_ast.ID("s")])])]),
                c_ast.ID("post"),
                c_ast.Default([c_ast.Break()]),
                c_ast.Continue(),
            ]
        ),
    )
    attempt("switch handmade", lambda: repr(ast_transforms.fix_switch_cases(sw3)))
    sw4 = c_ast.Switch(c_ast.ID("x"), c_ast.Compound([c_ast.Case(c_ast.ID("k"), [])]))
    attempt("switch case with no stmts", lambda: repr(ast_transforms.fix_switch_cases(sw4)))

    # fix_atomic_specifiers on hand-made trees
    def td(name, quals, typ):
        return c_ast.TypeDecl(name, quals, None, typ)

    it = c_ast.IdentifierType(["int"])
    d1 = c_ast.Decl("x", [], [], [], [], td("x", [], it), None, None)
    attempt("atomic plain decl", lambda: repr(ast_transforms.fix_atomic_specifiers(d1)))
    d2 = c_ast.Decl("x", [], [], [], [], td("x", ["_Atomic"], it), None, None)
    attempt("atomic qual on typedecl", lambda: repr(ast_transforms.fix_atomic_specifiers(d2)))
    d3 = c_ast.Decl("x", ["_Atomic"], [], [], [], td(None, ["_Atomic"], it), None, None)
    attempt("atomic qual on both", lambda: repr(ast_transforms.fix_atomic_specifiers(d3)))
    d4 = c_ast.Decl("x", [], [], [], [], it, None, None)
    attempt("atomic no typedecl", lambda: repr(ast_transforms.fix_atomic_specifiers(d4)))
    d5 = c_ast.Decl("x", [], [], [], [], None, None, None)
    attempt("atomic type None", lambda: repr(ast_transforms.fix_atomic_specifiers(d5)))
    inner = c_ast.Typename(None, ["_Atomic"], None, td(None, ["const"], it))
    d6 = c_ast.Decl("x", ["volatile"], [], [], [], c_ast.PtrDecl([], td("x", ["volatile"], inner)), None, None)
    attempt("atomic handmade splice", lambda: repr(ast_transforms.fix_atomic_specifiers(d6)))
    inner2 = c_ast.Typename(None, ["_Atomic"], None, td(None, [], it))
    d7 = c_ast.Decl("x", [], [], [], [], inner2, None, None)
    attempt("atomic typename directly below decl", lambda: repr(ast_transforms.fix_atomic_specifiers(d7)))
    d8 = c_ast.Typedef("t", [], ["typedef"], td("t", [], c_ast.Struct("S", None)))
    attempt("atomic typedef struct", lambda: repr(ast_transforms.fix_atomic_specifiers(d8)))

    # Node protocol on hand-built nodes
    nodes = [
        c_ast.Break(),
        c_ast.Constant("int", "1"),
        c_ast.ID("a"),
        c_ast.BinaryOp("+", c_ast.ID("a"), None),
        c_ast.FuncCall(c_ast.ID("f"), c_ast.ExprList([c_ast.ID("a"), c_ast.Constant("int", "2")])),
        c_ast.Compound(None),
        c_ast.Compound([]),
        c_ast.Decl("x", [], [], [], [], None, None, None),
        c_ast.Decl(None, None, None, None, None, None, None, None),
        c_ast.IdentifierType([]),
        c_ast.IdentifierType(["unsigned", "int"]),
        c_ast.FileAST([]),
        c_ast.FileAST(None),
        c_ast.EllipsisParam(),
        c_ast.InitList([c_ast.InitList([]), c_ast.InitList([c_ast.ID("q")])]),
        c_ast.Struct("S", [c_ast.Decl("a", [], [], [], [], td("a", [], it), None, c_ast.Constant("int", "3"))]),
        c_ast.Constant("string", '"multi\nline"', coord="here"),
        c_ast.Constant(["a", "b"], [["c"], "d\ne"]),
    ]
    for nd in nodes:
        out("--- node", nd.__class__.__name__, nd.__slots__, nd.attr_names)
        out(repr(nd))
        out(nd.children(), list(nd))
        for kw, text in show_variants(nd):
            out(sorted(kw.items()))
            out(text, end="")
        buf = io.StringIO()
        nd.show(buf, 4, True, False, True, True, "top")
        out(buf.getvalue(), end="")
    attempt("ctor missing arg", lambda: c_ast.BinaryOp("+"))
    attempt("ctor extra attr", lambda: setattr(c_ast.ID("a"), "bogus", 1))
    attempt("abstract children", lambda: c_ast.Node().children())
    attempt("abstract repr", lambda: repr(c_ast.Node()))
    attempt("unset slot repr", lambda: repr(c_ast.ID.__new__(c_ast.ID)))
    attempt("unset slot show", lambda: c_ast.ID.__new__(c_ast.ID).show(io.StringIO()))
    attempt("weakref", lambda: __import__("weakref").ref(c_ast.ID("a"))().name)

    v = CountingVisitor()
    out("method cache before", c_ast.NodeVisitor._method_cache, v._method_cache)
    v.visit(c_ast.BinaryOp("+", c_ast.ID("a"), c_ast.Constant("int", "1")))
    out("method cache keys", sorted(v._method_cache), c_ast.NodeVisitor._method_cache)
    out(v.log)
    attempt("visit None", lambda: c_ast.NodeVisitor().visit(None))
    attempt("visit non-node", lambda: c_ast.NodeVisitor().visit(3))

    classes = sorted(
        (n, getattr(c_ast, n)) for n in dir(c_ast) if isinstance(getattr(c_ast, n), type)
    )
    for n, cls in classes:
        out("class", n, getattr(cls, "__slots__", None), getattr(cls, "attr_names", None), cls.__mro__[1].__name__)
    # public names only: private module-level helpers / constants are not
    # part of the observable behaviour
    out("module names", sorted(n for n in dir(c_ast) if not n.startswith("_")))
    out("transform names", sorted(n for n in dir(ast_transforms) if not n.startswith("_")))
    out("package names", sorted(n for n in dir(pycparser) if not n.startswith("_")), pycparser.__all__, pycparser.__version__)


# ---------------------------------------------------------------------------
# 4. parse_file / preprocess_file
# ---------------------------------------------------------------------------
def package_section():
    out("=" * 70)
    out("PACKAGE")

    def attempt(label, fn):
        try:
            r = fn()
            out(label, "->")
            out(r)
        except Exception as e:  # noqa: BLE001
            out(label, exc_line(e))
            out("  cause", repr(e.__cause__), "context", type(e.__context__).__name__)

    fake = "-Iutils/fake_libc_include"
    attempt("pp no args", lambda: preprocess_file("tests/c_files/simplemain.c", "cpp", ["-nostdinc", "-P"]))
    attempt("pp str arg", lambda: preprocess_file("tests/c_files/memmgr.c", "cpp", fake)[:2000])
    attempt("pp list args", lambda: preprocess_file("tests/c_files/memmgr_with_h.c", "cpp", [fake, "-DFOO=1", "-P"]))
    attempt("pp empty list", lambda: len(preprocess_file("tests/c_files/empty.h", "cpp", [])))
    attempt("pp empty str", lambda: len(preprocess_file("tests/c_files/empty.h", "cpp", "")))
    attempt("pp default", lambda: len(preprocess_file("tests/c_files/empty.h")))
    attempt("pp tuple args", lambda: preprocess_file("tests/c_files/empty.h", "cpp", ("-P",)))
    attempt("pp None args", lambda: preprocess_file("tests/c_files/empty.h", "cpp", None))
    attempt("pp bad cpp", lambda: preprocess_file("tests/c_files/empty.h", "/nonexistent/cpp", "-P"))
    attempt("pp bad cpp list", lambda: preprocess_file("tests/c_files/empty.h", "/nonexistent/cpp", ["-P", "-E"]))
    attempt("pp dir as cpp", lambda: preprocess_file("tests/c_files/empty.h", "tests", ""))
    attempt("pp cpp fails", lambda: preprocess_file("tests/c_files/does_not_exist.c", "cpp", "-P"))

    def pf(*a, **k):
        buf = io.StringIO()
        parse_file(*a, **k).show(buf=buf, showcoord=True)
        return buf.getvalue()

    attempt("pf plain", lambda: pf("tests/c_files/simplemain.c"))
    attempt("pf cpp", lambda: pf("tests/c_files/memmgr_with_h.c", use_cpp=True, cpp_args=fake)[-3000:])
    attempt("pf cpp list", lambda: pf("tests/c_files/year.c", True, "cpp", [fake, "-P"])[-3000:])
    attempt("pf cpp missing", lambda: pf("tests/c_files/year.c", use_cpp=True, cpp_path="/nonexistent/cpp"))
    attempt("pf missing file", lambda: pf("tests/c_files/nope.c"))
    attempt("pf encoding", lambda: pf("tests/c_files/simplemain.c", encoding="latin-1"))
    attempt("pf bad encoding", lambda: pf("tests/c_files/simplemain.c", encoding="no-such-enc"))
    attempt("pf own parser", lambda: pf("tests/c_files/simplemain.c", parser=c_parser.CParser()))

    class FakeParser:
        def parse(self, text, filename):
            return c_ast.FileAST([c_ast.Constant("string", f"{filename}:{len(text)}")])

    attempt("pf fake parser", lambda: pf("tests/c_files/simplemain.c", parser=FakeParser()))
    attempt("pf falsy parser", lambda: pf("tests/c_files/simplemain.c", parser=0))
    attempt("pf syntax error", lambda: pf("tests/c_files/hdir/9/inc.h") if os.path.exists("tests/c_files/hdir/9/inc.h") else "n/a")
    attempt("pf unpreprocessed", lambda: pf("tests/c_files/memmgr.c"))


# ---------------------------------------------------------------------------
# 5. the generator
# ---------------------------------------------------------------------------
def generator_section():
    out("=" * 70)
    out("GENERATOR")
    cfg = os.path.join("pycparser", "_c_ast.cfg")
    gen = _ast_gen.ASTCodeGenerator(cfg)
    buf = io.StringIO()
    gen.generate(buf)
    # The prologue is fixed text copied into c_ast.py (its behaviour is
    # exercised through the c_ast module above); print the per-node part.
    gsrc = buf.getvalue()
    out("generated source (node classes):")
    out(gsrc[gsrc.index("self.visit(c)") :])
    out("prologue header:", gsrc[: gsrc.index("import sys")].replace(cfg, "<cfg>"))
    for nc in gen.node_cfg:
        out(nc.name, nc.all_entries, nc.attr, nc.child, nc.seq_child)

    bad_cfgs = [
        "",
        "# only a comment\n\n   \n",
        "A: []\n",
        "A: [x]\nB: [x*, y**, z]\n",
        "   A: [ x , y* ]   \n",
        "A: [x***]\n",
        "A: [,]\n",
        "A: [x,]\n",
        "A [x]\n",
        ": [x]\n",
        "A: x]\n",
        "A: [x\n",
        "A: ]x[\n",
        "A[: x]\n",
        "A:[]\n",
        "A: [] trailing\n",
        "A:: [x] ]\n",
        "A: [[x]]\n",
        "#A: [x]\nB: [y]\n",
        "A: [x] # comment\n",
        "[A]: [x]\n",
        "A]: [x\n",
        "AB\n",
        ":\n",
        "A: [x*, y*]\nNo brackets here\n",
    ]
    for i, text in enumerate(bad_cfgs):
        fd, path = tempfile.mkstemp(suffix=".cfg")
        try:
            with os.fdopen(fd, "w") as f:
                f.write(text)
            try:
                g = _ast_gen.ASTCodeGenerator(path)
                b = io.StringIO()
                g.generate(b)
                res = b.getvalue().replace(path, "<cfg>")
                # keep only the part after the fixed prologue
                res = res[res.index("class NodeVisitor") :]
                res = res[res.index("self.visit(c)") :]
                out(f"cfg[{i}] {text!r} ->")
                out(res)
            except Exception as e:  # noqa: BLE001
                out(f"cfg[{i}] {text!r}", exc_line(e).replace(path, "<cfg>"))
        finally:
            os.unlink(path)
    try:
        _ast_gen.ASTCodeGenerator("/nonexistent/x.cfg")
    except Exception as e:  # noqa: BLE001
        out("missing cfg", exc_line(e))

    # c_ast.py must be what the generator produces (modulo formatting)
    import ast as pyast

    def norm(src):
        tree = pyast.parse(src)
        for nd in pyast.walk(tree):
            body = getattr(nd, "body", None)
            if isinstance(body, list):
                for st in body:
                    if (
                        isinstance(st, pyast.Expr)
                        and isinstance(st.value, pyast.Constant)
                        and isinstance(st.value.value, str)
                    ):
                        st.value.value = " ".join(st.value.value.split())
        return pyast.dump(tree)

    with open(os.path.join("pycparser", "c_ast.py")) as f:
        on_disk = f.read()
    out("c_ast.py in sync with generator:", norm(on_disk) == norm(buf.getvalue()))


if __name__ == "__main__":
    files_section()
    snippets_section()
    direct_section()
    package_section()
    generator_section()
