"""Behaviour digest for pycparser/c_generator.py.

Run from the repository root:

    cd <repo root> && /venv/bin/python equiv.py > out.txt

(the script may live anywhere; it always imports the pycparser package found
in the current working directory).  The output is fully deterministic: for
every input it prints either the AST dump with coordinates plus the generated
C text (with and without reduce_parentheses, plus a re-parse round trip), or
the exception type and message.
"""

import io
import os
import re
import sys

sys.path.insert(0, os.getcwd())

from pycparser import c_ast, c_generator, c_parser  # noqa: E402

assert os.path.abspath(c_generator.__file__).startswith(os.getcwd()), (
    c_generator.__file__
)

OUT = sys.stdout


def emit(*parts):
    OUT.write("".join(parts))
    OUT.write("\n")


def describe_exc(e):
    return "EXC %s: %s" % (type(e).__name__, e)


def dump(ast):
    buf = io.StringIO()
    ast.show(buf=buf, showcoord=True, attrnames=True, nodenames=True)
    return buf.getvalue()


def gen(node, reduce_parentheses=False):
    try:
        return "OK\n" + repr(
            c_generator.CGenerator(reduce_parentheses=reduce_parentheses).visit(node)
        )
    except RecursionError:
        raise
    except Exception as e:  # noqa: BLE001
        return describe_exc(e)


def gen_text(node, reduce_parentheses=False):
    return c_generator.CGenerator(reduce_parentheses=reduce_parentheses).visit(node)


def walk(node):
    yield node
    for _, child in node.children():
        yield from walk(child)


def run_source(label, text, filename):
    emit("=" * 70)
    emit("INPUT ", label)
    try:
        ast = c_parser.CParser().parse(text, filename)
    except Exception as e:  # noqa: BLE001
        emit("PARSE ", describe_exc(e))
        return
    emit("AST")
    emit(dump(ast))
    for rp in (False, True):
        emit("GEN reduce_parentheses=", str(rp))
        try:
            out = gen_text(ast, rp)
        except Exception as e:  # noqa: BLE001
            emit(describe_exc(e))
            continue
        emit(out)
        emit("--- end")
        # Round trip: the generated text must parse and regenerate itself.
        try:
            ast2 = c_parser.CParser().parse(out, filename)
            out2 = gen_text(ast2, rp)
            emit("ROUNDTRIP stable=", str(out2 == out))
            if out2 != out:
                emit(out2)
        except Exception as e:  # noqa: BLE001
            emit("ROUNDTRIP ", describe_exc(e))
    # Every sub-node visited on its own with a fresh generator (this reaches
    # visit_TypeDecl / visit_PtrDecl / visit_ArrayDecl / visit_FuncDecl /
    # visit_Typename / visit_ParamList / visit_Enumerator ... directly).
    emit("SUBNODES")
    for i, sub in enumerate(walk(ast)):
        if i == 0:
            continue
        emit("%d %s %s" % (i, type(sub).__name__, gen(sub).replace("OK\n", "")))
    # _generate_stmt on every node, both indent modes, starting from a
    # non-zero indentation level.
    emit("STMTS")
    for i, sub in enumerate(walk(ast)):
        for add_indent in (False, True):
            g = c_generator.CGenerator()
            g.indent_level = 3
            try:
                r = repr(g._generate_stmt(sub, add_indent=add_indent))
            except Exception as e:  # noqa: BLE001
                r = describe_exc(e)
            emit("%d %s %s %s lvl=%d" % (i, type(sub).__name__, add_indent, r,
                                         g.indent_level))


# ---------------------------------------------------------------------------
# 1. C files shipped with the repository
# ---------------------------------------------------------------------------

def c_files():
    res = []
    for d in ("tests/c_files", "examples/c_files"):
        for root, dirs, files in os.walk(d):
            dirs.sort()
            for f in sorted(files):
                if f.endswith((".c", ".h")):
                    res.append(os.path.join(root, f).replace(os.sep, "/"))
    return sorted(res)


_COMMENT_RE = re.compile(
    r'//[^\n]*|/\*.*?\*/|"(?:\\.|[^"\\\n])*"|\'(?:\\.|[^\'\\\n])*\'', re.S)


def strip_comments_and_directives(text):
    def repl(m):
        tok = m.group(0)
        if tok.startswith("/"):
            # keep line structure so that coordinates stay meaningful
            return " " + "\n" * tok.count("\n")
        return tok
    text = _COMMENT_RE.sub(repl, text)
    lines = []
    for line in text.split("\n"):
        st = line.lstrip()
        if st.startswith("#") and not st[1:].lstrip().startswith("pragma"):
            lines.append("")
        else:
            lines.append(line)
    return "\n".join(lines)


# ---------------------------------------------------------------------------
# 2. Hand-written snippets
# ---------------------------------------------------------------------------

SNIPPETS = [
    # --- declarations, types, modifiers ---
    "int a;",
    "int a, b, *c, d[3], (*e)(void);",
    "int a = 1, b = 2;",
    "const int a = 1;",
    "static const unsigned long long int x = 5ULL;",
    "extern int printf(const char *fmt, ...);",
    "int *p;",
    "int **pp;",
    "int * const p;",
    "int * const * volatile p;",
    "const char * const * const names;",
    "int * restrict p;",
    "int arr[10];",
    "int arr[];",
    "int arr[3][4];",
    "int arr[3][4][5];",
    "int *arr[10];",
    "int (*arr)[10];",
    "int (*arr[3])[10];",
    "int *(*arr[3])[10];",
    "int (**arr)[10];",
    "int (*fp)(int, char);",
    "int (*fp)(void);",
    "int (*fp)();",
    "int *(*fp)(int *);",
    "int (*(*fp)(int))(double);",
    "int (*fpa[4])(int);",
    "int (*(*fpp))(int);",
    "void (*signal(int sig, void (*func)(int)))(int);",
    "char *(*(*x[3])(int))[5];",
    "int (* const fp)(void);",
    "int (* const * fp)(void);",
    "int f(int a[static 10]);",
    "int f(int a[const 10]);",
    "int f(int a[restrict static 3]);",
    "int f(int a[static const volatile 3]);",
    "int f(int a[*]);",
    "int f(int n, int a[n][n]);",
    "int f(int a[const]);",
    "int f(int, char, ...);",
    "int f(void);",
    "int f();",
    "int f(int (*)(int));",
    "int f(int *, char **, const int * const);",
    "int f(int [], int [3]);",
    "int f(int (*)[3]);",
    "int f(struct s *p, union u *q, enum e r);",
    "inline int f(void);",
    "static inline int f(void);",
    "_Noreturn void die(void);",
    "inline static _Noreturn void die(void);",
    "_Thread_local int t;",
    "static _Thread_local int t;",
    "register int r;",
    "auto int r;",
    "_Alignas(8) int a;",
    "_Alignas(long) char c;",
    "_Alignas(8) _Alignas(16) int a;",
    "static _Alignas(16) const int a = 3;",
    "struct s { _Alignas(8) char c; };",
    "_Atomic int ai;",
    "_Atomic(int) ai;",
    "_Atomic(int *) ap;",
    "_Atomic(int) * const ap;",
    "int * _Atomic ap;",
    "typedef _Atomic(int) atomic_int;",
    "auto _Atomic(int) x;",
    "_Bool b;",
    "_Complex double z;",
    "long double ld;",
    "unsigned u;",
    "signed char sc;",
    "__int128 big;",
    # --- typedefs ---
    "typedef int T;",
    "typedef int T; T x;",
    "typedef int T, *PT, AT[3];",
    "typedef int (*FP)(int, int);",
    "typedef struct s { int a; } S;",
    "typedef struct { int a; } S;",
    "typedef enum { A, B } E;",
    "typedef const int * const CP;",
    "typedef int T; T f(T a, T *b);",
    "typedef int T; void f(void) { T T; }",
    "typedef int T; int f(int T);",
    "typedef char T; void f(void) { unsigned T; }",
    "typedef int T; struct s { T T; };",
    "typedef void (*handler_t)(int); handler_t signal(int, handler_t);",
    "typedef int T[3]; T a[2];",
    "typedef int T; typedef T U; U u = (U) 1;",
    # --- struct / union / enum ---
    "struct s;",
    "struct s { int a; };",
    "struct s { int a; char b; } v;",
    "struct s { int a : 3; unsigned b : 1; int : 0; };",
    "struct s { int : 4; };",
    "struct s { struct t { int x; } inner; int y; };",
    "struct s { struct { int x; }; union { int a; float b; }; };",
    "struct s { int a; } v = {1};",
    "struct s { int a, b; int *c, d[2]; };",
    "struct s { int (*fp)(int); };",
    "struct s { };",
    "struct { int a; } anon;",
    "union u;",
    "union u { int a; float f; };",
    "union u { int a; float f; } v = { .f = 1.0f };",
    "union { int a; } anon;",
    "enum e;",
    "enum e { A };",
    "enum e { A, B, C };",
    "enum e { A = 1, B = A + 1, C = (B << 2) };",
    "enum e { A, B, };",
    "enum { X = 'a', Y = sizeof(int) } v;",
    "enum e { A } f(enum e x);",
    "struct s { enum { P, Q } tag; union { int i; float f; } u; } v;",
    "struct s { int a; } *f(void);",
    "struct s { struct s *next; };",
    "void f(void) { struct s { int a; } v; enum e { A, B } w; }",
    "void f(void) { struct s { enum e { A, B } x; struct { int q; } y; } v; }",
    "int f(void) { return sizeof(struct { int a; char b; }); }",
    "int f(void) { return sizeof(enum { A, B }); }",
    "_Static_assert(sizeof(int) == 4, \"int is 4\");",
    "_Static_assert(1);",
    "struct s { int a; _Static_assert(1, \"ok\"); int b; };",
    "void f(void) { _Static_assert(sizeof(int) >= 2, \"small\"); }",
    # --- initialisers ---
    "int a[] = {1, 2, 3};",
    "int a[2][2] = {{1, 2}, {3, 4}};",
    "int a[] = {1, 2, 3,};",
    "int a[5] = {[0] = 1, [4] = 5};",
    "int a[5][5] = {[0][1] = 1, [4][4] = 5};",
    "struct s v = {.a = 1, .b = {2, 3}, .c.d = 4, .e[1].f = 5};",
    "struct s v = {.a = {.b = {.c = 1}}};",
    "struct s v = {1, .b = 2, 3};",
    "struct s v = {};",
    "char s[] = \"hello\";",
    "char s[] = \"hello\" \" \" \"world\";",
    "char *s = \"a\\n\\t\\\"b\";",
    "wchar_t *w = L\"wide\";",
    "int c = 'a', d = '\\n', e = L'x';",
    "float f = 1.0f, g = 1e10, h = .5, i = 0x1.8p3;",
    "int i = 0x1F, j = 017, k = 0b101, l = 10u, m = 10L, n = 10ull;",
    "int x = (1, 2);",
    "int x = {1};",
    "int *p = (int []){1, 2, 3};",
    "struct s v = (struct s){.a = 1};",
    "int x = ((struct s){1, 2}).a;",
    "int *p = &(int){5};",
    "int x = (int){1} + (int){2};",
    # --- expressions ---
    "int x = a + b * c;",
    "int x = (a + b) * c;",
    "int x = a - (b - c);",
    "int x = (a - b) - c;",
    "int x = a - b - c;",
    "int x = a / (b * c);",
    "int x = a * b / c % d;",
    "int x = a << b >> c;",
    "int x = a << (b + c);",
    "int x = (a << b) + c;",
    "int x = a < b == c > d;",
    "int x = a & b | c ^ d;",
    "int x = (a & b) | (c ^ d);",
    "int x = a & (b | c) ^ d;",
    "int x = a && b || c && d;",
    "int x = (a || b) && (c || d);",
    "int x = a || b || c;",
    "int x = a || (b || c);",
    "int x = a == b != c;",
    "int x = a == (b != c);",
    "int x = a <= b, y = a >= b, z = a != b;",
    "int x = a + b + c + d + e;",
    "int x = a + (b + (c + (d + e)));",
    "int x = a * (b + c) * d;",
    "int x = -a + +b - -c;",
    "int x = - -a;",
    "int x = -(-a);",
    "int x = !a && ~b;",
    "int x = !(a && b);",
    "int x = ~(a | b);",
    "int x = *p + *q;",
    "int x = *p++;",
    "int x = (*p)++;",
    "int x = ++*p;",
    "int x = *++p;",
    "int x = p++ + ++p;",
    "int x = p-- - --p;",
    "int x = a++ + b;",
    "int x = (a + b)++;",
    "int x = -(a + b);",
    "int x = &a[1] - &b[2];",
    "int *x = &*p;",
    "int x = **pp;",
    "int x = *(p + 1);",
    "int x = (*p).a + p->b;",
    "int x = a.b.c + a->b->c + a.b->c;",
    "int x = (*fp)(1, 2);",
    "int x = fp(1)(2)(3);",
    "int x = a[1][2][3];",
    "int x = a[b[c]];",
    "int x = (a + b)[1];",
    "int x = (a, b)[1];",
    "int x = f(a)[1].b->c(d);",
    "int x = (a ? b : c)[1];",
    "int x = (a ? b : c).d;",
    "int x = (a = b)[1];",
    "int x = ((int *)p)[1];",
    "int x = ((struct s *)p)->a;",
    "int x = f();",
    "int x = f(a);",
    "int x = f(a, b, c);",
    "int x = f((a, b), c);",
    "int x = f(a = 1, b += 2);",
    "int x = f(g(h(1)));",
    "int x = (f)(1);",
    "int x = (*f)(1);",
    "int x = (a ? f : g)(1);",
    "int x = sizeof a;",
    "int x = sizeof(a);",
    "int x = sizeof(int);",
    "int x = sizeof(int *);",
    "int x = sizeof(int (*)(void));",
    "int x = sizeof(int [3]);",
    "int x = sizeof(struct s);",
    "int x = sizeof a + b;",
    "int x = sizeof(a + b);",
    "int x = sizeof sizeof a;",
    "int x = sizeof *p;",
    "int x = sizeof a[1];",
    "int x = sizeof(a)[1];",
    "int x = _Alignof(int);",
    "int x = _Alignof(struct s *);",
    "int x = (int) a;",
    "int x = (int) a + b;",
    "int x = (int)(a + b);",
    "int x = (int)(char) a;",
    "int x = (int) -a;",
    "int x = (int) *p;",
    "int x = (int) p->a;",
    "int x = (int) f(1);",
    "int x = (int) sizeof(int);",
    "int *x = (int *) 0;",
    "void *x = (void (*)(int)) 0;",
    "int x = (const int) 1;",
    "int x = (unsigned long long) 1;",
    "int x = -(int) a;",
    "int x = ((int) a)++;",
    "int x = a ? b : c;",
    "int x = a ? b : c ? d : e;",
    "int x = a ? b ? c : d : e;",
    "int x = (a ? b : c) ? d : e;",
    "int x = a ? (b, c) : d;",
    "int x = a ? b = 1 : c;",
    "int x = a + (b ? c : d);",
    "int x = (a ? b : c) + d;",
    "int x = -(a ? b : c);",
    "int x = a || b ? c && d : e | f;",
    "int x = a = b;",
    "int x = a = b = c;",
    "int x = (a = b) = c;",
    "int x = a += b -= c *= d /= e %= f;",
    "int x = a <<= b >>= c &= d |= e ^= f;",
    "int x = a + (b = c);",
    "int x = (a = b) + c;",
    "int x = *p = 1;",
    "int x = a[1] = b.c = d->e = 0;",
    "int x = a = (b, c);",
    "int x = a = b ? c : d;",
    "int x = a = (int) b;",
    "int x = a = {1};",
    "int x = __func__[0];",
    "int x = offsetof(struct s, a);",
    "int x = offsetof(struct s, a.b);",
    "int x = offsetof(struct s, a[1]);",
    "int x = offsetof(struct s, a.b[2].c);",
    "int x = ({ int y = 1; y; });",
    "int x = a + ({ 1; });",
    # --- statements ---
    "void f(void) { }",
    "void f(void) { ; }",
    "void f(void) { ;; }",
    "void f(void) { int a; a = 1; }",
    "void f(void) { a; 1; \"s\"; a[1]; a.b; a->b; f(); }",
    "void f(void) { a + b; -a; a ? b : c; (int) a; a, b; a++; sizeof a; }",
    "void f(void) { (int){1}; (struct s){1, 2}; }",
    "void f(void) { return; }",
    "int f(void) { return 1; }",
    "int f(void) { return a + b; }",
    "int f(void) { return (a, b); }",
    "int f(void) { return a, b; }",
    "int f(void) { return a = 1; }",
    "int f(void) { return (int) a; }",
    "struct s f(void) { return (struct s){1, 2}; }",
    "void f(void) { if (a) b; }",
    "void f(void) { if (a) b; else c; }",
    "void f(void) { if (a) { b; } else { c; } }",
    "void f(void) { if (a) b; else if (c) d; else e; }",
    "void f(void) { if (a) if (b) c; else d; }",
    "void f(void) { if (a) { if (b) c; } else d; }",
    "void f(void) { if (a) ; else ; }",
    "void f(void) { if (a, b) c; }",
    "void f(void) { if (a = b) c; }",
    "void f(void) { if (a) return; else return; }",
    "void f(void) { if (a) while (b) c; else do d; while (e); }",
    "void f(void) { if (a) for (;;) ; else switch (x) { default: ; } }",
    "void f(void) { if (a) { } }",
    "void f(void) { if (a) { { { b; } } } }",
    "void f(void) { while (a) b; }",
    "void f(void) { while (a) { b; c; } }",
    "void f(void) { while (1) ; }",
    "void f(void) { while (a) while (b) while (c) d; }",
    "void f(void) { while (a) if (b) c; else d; }",
    "void f(void) { while (a, b) ; }",
    "void f(void) { do a; while (b); }",
    "void f(void) { do { a; b; } while (c); }",
    "void f(void) { do do a; while (b); while (c); }",
    "void f(void) { do ; while (0); }",
    "void f(void) { do if (a) b; while (c); }",
    "void f(void) { for (;;) ; }",
    "void f(void) { for (i = 0; i < 10; i++) a; }",
    "void f(void) { for (int i = 0; i < 10; i++) a; }",
    "void f(void) { for (int i = 0, j = 1; i < j; i++, j--) { a; } }",
    "void f(void) { for (int i = 0, *p = &i, a[2] = {1, 2}; ; ) ; }",
    "void f(void) { for (i = 0, j = 1; ; ) ; }",
    "void f(void) { for (; i < 10; ) ; }",
    "void f(void) { for (; ; i++) ; }",
    "void f(void) { for (i = 0; ; ) ; }",
    "void f(void) { for (;;) for (;;) for (;;) break; }",
    "void f(void) { for (;;) { continue; } }",
    "void f(void) { for (struct s { int a; } v = {1}; v.a; v.a--) ; }",
    "void f(void) { switch (a) { } }",
    "void f(void) { switch (a) { case 1: b; break; } }",
    "void f(void) { switch (a) { case 1: case 2: b; break; default: c; } }",
    "void f(void) { switch (a) { case 1: { b; } break; default: { } } }",
    "void f(void) { switch (a) { case 1: b; c; d; case 2: ; default: ; } }",
    "void f(void) { switch (a) { default: switch (b) { case 1: c; } } }",
    "void f(void) { switch (a) { case 1 + 2: if (b) c; else d; break; } }",
    "void f(void) { switch (a) { case 'x': for (;;) ; case 'y': while (1) ; } }",
    "void f(void) { switch (a) { case A: return; case B: goto l; } l: ; }",
    "void f(void) { switch (a) case 1: b; }",
    "void f(void) { switch (a) default: b; }",
    "void f(void) { switch (a) b; }",
    "void f(void) { switch (a) { int x; case 1: x = 1; } }",
    "void f(void) { switch (a) { case 1: int_label: b; break; } }",
    "void f(void) { l: a; }",
    "void f(void) { l: ; }",
    "void f(void) { l: { a; } }",
    "void f(void) { l1: l2: l3: a; }",
    "void f(void) { l: if (a) b; goto l; }",
    "void f(void) { l: while (a) { goto l; } }",
    "void f(void) { if (a) l: b; }",
    "void f(void) { if (a) { l: b; } else m: c; }",
    "void f(void) { goto end; end: return; }",
    "void f(void) { { } }",
    "void f(void) { { a; } { b; } }",
    "void f(void) { { { { } } } }",
    "void f(void) { int a = 1; { int a = 2; { int a = 3; } } }",
    "void f(void) { typedef int T; T x; }",
    "void f(void) { static int a; extern int b; register int c; }",
    "void f(void) { int a, b = 1, *c; }",
    "void f(void) { int a[n]; int b[n][m]; }",
    "void f(void) { struct s v = {1, 2}; union u w; enum e x = A; }",
    "void f(void) { int (*fp)(int) = g; fp(1); (*fp)(2); }",
    "void f(void) { a = b; a += 1; a = b = c; a = (b, c); }",
    "void f(void) { a = b ? c : d; a ? b = 1 : (c = 2); }",
    "void f(void) { *p = 1; p->a = 2; a[1] = 3; a.b = 4; (*p).a = 5; }",
    "void f(void) { (void) a; (void) f(); (void) 0; }",
    "void f(void) { ({ a; }); }",
    "void f(void) { x = ({ int y = 1; y + 1; }); }",
    # --- pragmas ---
    "#pragma once",
    "#pragma",
    "#pragma   spaced   text   ",
    "#pragma omp parallel for\nint a;",
    "int a;\n#pragma pack(push, 1)\nstruct s { char c; int i; };\n#pragma pack(pop)",
    "void f(void) {\n#pragma omp critical\n a; }",
    "void f(void) {\n if (a)\n#pragma x\n b; }",
    "void f(void) {\n for (;;)\n#pragma unroll\n { a; } }",
    "void f(void) {\n while (a)\n#pragma w\n b;\n}",
    "void f(void) {\n switch (a) {\n case 1:\n#pragma c\n b;\n }\n}",
    "struct s {\n#pragma pack(1)\n int a;\n};",
    "struct s { int a;\n#pragma p\n};",
    "_Pragma(\"once\")",
    "_Pragma(\"omp parallel\") int a;",
    "void f(void) { _Pragma(\"omp critical\") a; }",
    "void f(void) { if (a) _Pragma(\"x\") b; }",
    "struct s { _Pragma(\"pack(1)\") int a; };",
    # --- function definitions ---
    "int main(void) { return 0; }",
    "int main(int argc, char **argv) { return argc; }",
    "int main(int argc, char *argv[]) { return argc; }",
    "static inline int f(int a) { return a; }",
    "int *f(void) { return 0; }",
    "int (*f(void))[3] { return 0; }",
    "int (*f(int a))(int) { return 0; }",
    "void (*f(int a, void (*g)(int)))(int) { return g; }",
    "struct s f(struct s a) { return a; }",
    "struct s { int a; } f(void) { struct s v; return v; }",
    "enum e { A } f(void) { return A; }",
    "const char *f(void) { return \"s\"; }",
    "int f(a, b) int a; char b; { return a; }",
    "int f(a, b) int a, b; { return a; }",
    "int f(a, b) int *a; char b[]; { return *a; }",
    "int f(a) { return a; }",
    "f(a) int a; { return a; }",
    "f() { }",
    "main() { return 0; }",
    "static f(void) { }",
    "void f(int a, ...) { }",
    "void f(int a[static 3], int b[const]) { }",
    "_Noreturn void f(void) { for (;;) ; }",
    "int f(void) { return 0; } int g(void) { return 1; }",
    "int a; int f(void) { return a; } int b; struct s { int x; }; int g(void) { }",
    "void f(void) { if (a) { b; } } void g(void) { while (a) { if (b) { c; } } }",
    # --- error cases (parser side) ---
    "",
    ";",
    ";;",
    "int",
    "int a",
    "int a b;",
    "int a = ;",
    "int 1a;",
    "int a[;",
    "int f(;",
    "int f(int a,);",
    "struct { int a };",
    "struct s { int a; ",
    "enum e { };",
    "enum e { A B };",
    "enum e { , };",
    "void f(void) { ",
    "void f(void) { a }",
    "void f(void) { if }",
    "void f(void) { if (a) }",
    "void f(void) { if () b; }",
    "void f(void) { else a; }",
    "void f(void) { for (;) ; }",
    "void f(void) { for (a; b; c; d) ; }",
    "void f(void) { while () ; }",
    "void f(void) { do a; while (b) }",
    "void f(void) { switch () { } }",
    "void f(void) { case 1: ; }",
    "void f(void) { goto ; }",
    "void f(void) { return return; }",
    "void f(void) { a = ; }",
    "void f(void) { a + ; }",
    "void f(void) { (a; }",
    "void f(void) { a[1; }",
    "void f(void) { f(1,; }",
    "void f(void) { sizeof; }",
    "void f(void) { (int); }",
    "void f(void) { a ? b; }",
    "void f(void) { a.; }",
    "void f(void) { a->1; }",
    "void f(void) { 1 = ; }",
    "void f(void) { int; int a = {; }",
    "void f(void) { int a = {1, ; }",
    "void f(void) { x = {.a 1}; }",
    "void f(void) { x = ([1] = 2); }",
    "int a = 'ab",
    "char *s = \"abc;",
    "char *s = \"\\q\";",
    "int a = 09;",
    "int a = 1.2.3;",
    "int a = 0x;",
    "int a @ b;",
    "int a = $;",
    "typedef int T; T T;",
    "typedef int T; int T;",
    "int T; typedef int T;",
    "typedef int T; void f(void) { T = 1; }",
    "typedef int T; int x = T;",
    "int x = (T) 1;",
    "T x;",
    "void f(T a);",
    "int f(int a, a);",
    "int f(a, b) int c; { }",
    "int f(int a) int a; { }",
    "_Static_assert();",
    "_Static_assert(1, 2);",
    "_Alignas() int a;",
    "_Atomic() int a;",
    "_Pragma(once)",
    "_Pragma()",
    "#pragma x\n",
    "#line 10 \"foo.c\"\nint a b;",
    "# 5 \"bar.h\" 1\nint a;\nint b c;",
    "int a; /* comment */",
    "int a; // comment",
    "int offsetof;",
    "int x = offsetof(int);",
    "int x = offsetof(struct s, );",
    "int x = offsetof(struct s, 1);",
    "long long long x;",
    "int int x;",
    "struct s struct t x;",
    "void f(void) { struct s { int a; } }",
    "int a[3] = [1, 2, 3];",
    "int f(void) { return 0; };",
    "int f(void) { } }",
    "{ }",
    "int (a;",
    "int a);",
    "int *(;",
    "int f(...) ;",
    "int f(int ..., int);",
    "void f(void) { int a; int a; }",
    "void f(int a) { int a; }",
    "void f(void) { l: }",
    "void f(void) { int x = ({ }); }",
    "void f(void) { x = ({ int y; }); }",
]


# ---------------------------------------------------------------------------
# 3. Systematically generated snippets
# ---------------------------------------------------------------------------

def generated_snippets():
    res = []
    binops = ["||", "&&", "|", "^", "&", "==", "!=", ">", ">=", "<", "<=", ">>",
              "<<", "+", "-", "*", "/", "%"]
    # every pair of binary operators, both groupings
    for o1 in binops:
        for o2 in binops:
            res.append("int x = (a %s b) %s c, y = a %s (b %s c), z = a %s b %s c;"
                       % (o1, o2, o1, o2, o1, o2))
    # unary operators over operand shapes
    unops = ["-", "+", "!", "~", "*", "&", "++", "--", "sizeof "]
    operands = ["a", "1", "a[1]", "a.b", "a->b", "f(1)", "(a + b)", "(int) a",
                "-a", "a++", "(a ? b : c)", "(a = b)", "(a, b)", "sizeof a",
                "(int){1}", "*p", "\"s\""]
    for u in unops:
        res.append("void f(void) { " + " ".join("%s%s;" % (u, o) for o in operands)
                   + " }")
    for post in ("++", "--", "[0]", ".m", "->m", "(1)"):
        res.append("void f(void) { " + " ".join("%s%s;" % (o, post) for o in operands)
                   + " }")
    # casts and assignments over operand shapes
    res.append("void f(void) { " + " ".join("(long) %s;" % o for o in operands) + " }")
    for aop in ("=", "+=", "-=", "*=", "/=", "%=", "<<=", ">>=", "&=", "|=", "^="):
        res.append("void f(void) { " + " ".join("x %s %s;" % (aop, o)
                                                  for o in operands) + " }")
    # ternaries over operand shapes
    res.append("void f(void) { " + " ".join("%s ? %s : %s;" % (o, o, o)
                                              for o in operands if o != "(a = b)")
               + " }")
    # each statement kind nested as the body of each compound statement kind
    bodies = ["a;", ";", "{ }", "{ a; b; }", "return;", "break;", "continue;",
              "goto l;", "l: a;", "if (c) a;", "if (c) a; else b;",
              "if (c) { a; } else { b; }", "while (c) a;", "do a; while (c);",
              "for (;;) a;", "switch (c) { case 1: a; default: b; }", "int d = 1;",
              "typedef int T;", "struct s { int q; } v;", "enum { A, B } w;",
              "_Static_assert(1, \"m\");", "a = 1;", "a, b;", "(int) a;",
              "f(1);", "a ? b : c;", "(int){1};", "\n#pragma p\n a;"]
    wrappers = ["%s", "if (x) %s", "if (x) y; else %s", "while (x) %s",
                "do %s while (x);", "for (;;) %s", "switch (x) %s",
                "switch (x) { case 1: %s }", "switch (x) { default: %s %s }",
                "l0: %s", "{ %s }", "{ { %s } %s }", "if (x) { %s } else { %s }"]
    for w in wrappers:
        for b in bodies:
            inner = w % ((b,) * w.count("%s"))
            res.append("void f(void) { for (;;) { %s } }" % inner)
    # declarator modifier chains
    chains = []
    for m1 in ("*", "[2]", "(int)", "* const"):
        for m2 in ("*", "[3]", "(char)", "* volatile"):
            for m3 in ("", "*", "[4]", "(void)"):
                d = "x"
                for m in (m1, m2, m3):
                    if not m:
                        continue
                    if m.startswith("*"):
                        d = "(%s %s)" % (m, d)
                    else:
                        d = "(%s)%s" % (d, m)
                chains.append("int %s;" % d)
                chains.append("int f(int %s);" % d.replace("x", ""))
                chains.append("int y = sizeof(int %s);" % d.replace("x", ""))
    res.extend(chains)
    # struct / enum nesting at several indentation depths
    for depth in range(1, 5):
        s = "int leaf;"
        for i in range(depth):
            s = ("struct s%d { %s enum e%d { A%d, B%d = %d } tag%d; "
                 "union { int i%d; float f%d; }; } m%d;"
                 % (i, s, i, i, i, i, i, i, i, i))
        res.append(s)
        res.append("void f(void) { if (a) { %s } }" % s)
    return res


# ---------------------------------------------------------------------------
# 4. Hand-built ASTs (shapes the parser never produces, incl. error cases)
# ---------------------------------------------------------------------------

def hand_built():
    A = c_ast
    ID = A.ID
    const = lambda v, t="int": A.Constant(t, v)  # noqa: E731

    def typedecl(name, names=("int",), quals=None):
        return A.TypeDecl(name, quals or [], None, A.IdentifierType(list(names)))

    def decl(name, type_, **kw):
        d = dict(quals=[], align=[], storage=[], funcspec=[], init=None, bitsize=None)
        d.update(kw)
        return A.Decl(name, d["quals"], d["align"], d["storage"], d["funcspec"],
                      type_, d["init"], d["bitsize"])

    cases = []
    add = lambda label, node: cases.append((label, node))  # noqa: E731

    add("generic None", None)
    add("Constant str", const("1"))
    add("Constant int value", const(5))
    add("Constant None value", const(None))
    add("ID", ID("x"))
    add("ID None", ID(None))
    add("Pragma str", A.Pragma("omp x"))
    add("Pragma empty", A.Pragma(""))
    add("Pragma None", A.Pragma(None))
    add("Pragma node", A.Pragma(const('"once"', "string")))
    add("Pragma int", A.Pragma(3))
    add("ArrayRef simple", A.ArrayRef(ID("a"), const("1")))
    add("ArrayRef complex", A.ArrayRef(A.BinaryOp("+", ID("a"), ID("b")), ID("i")))
    add("ArrayRef None subscript", A.ArrayRef(ID("a"), None))
    add("ArrayRef int-valued name", A.ArrayRef(const(5), const("1")))
    add("ArrayRef int-valued paren name",
        A.ArrayRef(A.UnaryOp("-", const(5)), const("1")))
    add("StructRef .", A.StructRef(ID("a"), ".", ID("b")))
    add("StructRef ->", A.StructRef(A.UnaryOp("*", ID("a")), "->", ID("b")))
    add("StructRef None type", A.StructRef(ID("a"), None, ID("b")))
    add("FuncCall no args", A.FuncCall(ID("f"), None))
    add("FuncCall empty args", A.FuncCall(ID("f"), A.ExprList([])))
    add("FuncCall args", A.FuncCall(ID("f"), A.ExprList([ID("a"), const("1")])))
    add("FuncCall nested exprlist",
        A.FuncCall(ID("f"), A.ExprList([A.ExprList([ID("a"), ID("b")]), ID("c")])))
    add("FuncCall complex name", A.FuncCall(A.Cast(A.Typename(None, [], None,
        typedecl(None)), ID("p")), A.ExprList([ID("a")])))
    for op in ("sizeof", "p++", "p--", "-", "+", "!", "~", "*", "&", "++", "--",
               "_Alignof", "", "weird", None, 3):
        add("UnaryOp %r simple" % (op,), A.UnaryOp(op, ID("a")))
        add("UnaryOp %r complex" % (op,),
            A.UnaryOp(op, A.BinaryOp("+", ID("a"), ID("b"))))
        add("UnaryOp %r int operand" % (op,), A.UnaryOp(op, const(7)))
    add("UnaryOp sizeof typename", A.UnaryOp("sizeof", A.Typename(None, [], None,
        A.PtrDecl([], typedecl(None)))))
    add("UnaryOp None expr", A.UnaryOp("-", None))
    add("BinaryOp unknown op", A.BinaryOp("**", A.BinaryOp("+", ID("a"), ID("b")),
                                         ID("c")))
    add("BinaryOp unknown inner op", A.BinaryOp("+", A.BinaryOp("**", ID("a"),
                                                                ID("b")), ID("c")))
    add("BinaryOp unknown right inner", A.BinaryOp("+", ID("c"),
                                                   A.BinaryOp("**", ID("a"), ID("b"))))
    add("BinaryOp None op", A.BinaryOp(None, ID("a"), ID("b")))
    add("BinaryOp None operands", A.BinaryOp("+", None, None))
    add("BinaryOp with initlist", A.BinaryOp("+", A.InitList([const("1")]),
                                             A.ExprList([ID("a"), ID("b")])))
    add("BinaryOp with compound", A.BinaryOp("+", A.Compound([ID("a")]), ID("b")))
    add("BinaryOp with assignment", A.BinaryOp("+", A.Assignment("=", ID("a"), ID("b")),
                                               A.TernaryOp(ID("a"), ID("b"), ID("c"))))
    add("Assignment chain", A.Assignment("=", ID("a"), A.Assignment("+=", ID("b"),
                                                                    ID("c"))))
    add("Assignment exprlist", A.Assignment("=", ID("a"), A.ExprList([ID("b"),
                                                                      ID("c")])))
    add("Assignment initlist", A.Assignment("=", ID("a"), A.InitList([ID("b")])))
    add("Assignment None", A.Assignment(None, None, None))
    add("IdentifierType", A.IdentifierType(["unsigned", "long"]))
    add("IdentifierType empty", A.IdentifierType([]))
    add("IdentifierType None", A.IdentifierType(None))
    add("IdentifierType non-str", A.IdentifierType(["int", 3]))
    add("Decl plain", decl("x", typedecl("x")))
    add("Decl all", decl("x", typedecl("x", quals=["const"]), quals=["const"],
                         align=[A.Alignas(const("8")), A.Alignas(const("16"))],
                         storage=["static", "extern"], funcspec=["inline", "_Noreturn"],
                         init=const("1"), bitsize=const("3")))
    add("Decl init list", decl("x", A.ArrayDecl(typedecl("x"), None, []),
                               init=A.InitList([const("1"), A.InitList([const("2")])])))
    add("Decl init exprlist", decl("x", typedecl("x"),
                                   init=A.ExprList([ID("a"), ID("b")])))
    add("Decl init compound", decl("x", typedecl("x"),
                                   init=A.Compound([ID("a")])))
    add("Decl None type", decl("x", None))
    add("Decl None name", decl(None, typedecl(None)))
    add("Decl bitsize only", decl(None, typedecl(None), bitsize=const("0")))
    add("Decl storage str", decl("x", typedecl("x"), storage="ab"))
    add("Decl funcspec non-str", decl("x", typedecl("x"), funcspec=[1]))
    add("Decl of Decl", decl("x", decl("y", typedecl("y"), storage=["static"])))
    add("Decl struct type", decl("v", A.TypeDecl("v", [], None,
        A.Struct("s", [decl("a", typedecl("a")), decl("b", typedecl("b"),
                                                   bitsize=const("2"))]))))
    add("Decl type is IdentifierType", decl("x", A.IdentifierType(["int"])))
    add("Decl type is ID", decl("x", ID("foo")))
    add("DeclList one", A.DeclList([decl("a", typedecl("a"))]))
    add("DeclList many", A.DeclList([decl("a", typedecl("a"), init=const("1")),
        decl("b", A.PtrDecl([], typedecl("b"))),
        decl("c", typedecl("c"), init=A.InitList([const("2")]),
             bitsize=const("1"))]))
    add("DeclList empty", A.DeclList([]))
    add("DeclList None", A.DeclList(None))
    add("DeclList non-decl tail", A.DeclList([decl("a", typedecl("a")), ID("z")]))
    add("DeclList int-valued head", A.DeclList([const(5), decl("a", typedecl("a"))]))
    add("DeclList int-valued head, bad tail", A.DeclList([const(5), None]))
    add("DeclList int-valued only", A.DeclList([const(5)]))
    add("FuncDef int-valued K&R decl", A.FuncDef(const(5), [const(6)], A.Compound([])))
    add("FuncDef int-valued body", A.FuncDef(const("5"), None, const(6)))
    add("FuncDef int-valued body K&R", A.FuncDef(const("5"), [const(7)], const(6)))
    add("Typedef", A.Typedef("T", [], ["typedef"], typedecl("T")))
    add("Typedef no storage", A.Typedef("T", [], [], A.PtrDecl(["const"],
                                                               typedecl("T"))))
    add("Typedef None storage", A.Typedef("T", [], None, typedecl("T")))
    tn = A.Typename(None, [], None, A.PtrDecl([], typedecl(None, ["char"])))
    add("Cast simple", A.Cast(tn, ID("a")))
    add("Cast complex", A.Cast(tn, A.BinaryOp("+", ID("a"), ID("b"))))
    add("Cast named typename", A.Cast(A.Typename("nm", [], None, typedecl("nm")),
                                      ID("a")))
    add("Cast None", A.Cast(None, None))
    add("ExprList empty", A.ExprList([]))
    add("ExprList None", A.ExprList(None))
    add("ExprList mixed", A.ExprList([ID("a"), A.InitList([const("1")]),
        A.ExprList([ID("b"), ID("c")]), A.Compound([ID("d")]), const("2")]))
    add("ExprList int item first", A.ExprList([const(1), ID("a")]))
    add("ExprList int item last then bad", A.ExprList([ID("a"), const(1),
                                                       A.UnaryOp("-", None)]))
    add("ExprList None item", A.ExprList([ID("a"), None]))
    add("ExprList tuple", A.ExprList((ID("a"), ID("b"))))
    add("InitList empty", A.InitList([]))
    add("InitList None", A.InitList(None))
    add("InitList mixed", A.InitList([ID("a"), A.InitList([const("1")]),
        A.ExprList([ID("b"), ID("c")]), A.Compound([ID("d")]),
        A.NamedInitializer([ID("f"), const("2")], A.InitList([const("3")]))]))
    add("InitList int item", A.InitList([ID("a"), const(1)]))
    add("InitList int then error", A.InitList([const(1), A.UnaryOp("-", None)]))
    add("Enum None values", A.Enum("e", None))
    add("Enum no name", A.Enum(None, A.EnumeratorList([A.Enumerator("A", None)])))
    add("Enum empty list", A.Enum("e", A.EnumeratorList([])))
    add("Enum values", A.Enum("e", A.EnumeratorList([A.Enumerator("A", None),
        A.Enumerator("B", const("2")), A.Enumerator("C", A.BinaryOp("+", ID("B"),
                                                                    const("1")))])))
    add("Enum None enumerators", A.Enum("e", A.EnumeratorList(None)))
    add("Enum non-enumerator member", A.Enum("e", A.EnumeratorList([ID("a"),
                                                                    ID("bcd")])))
    add("Enum int name", A.Enum(3, None))
    add("Alignas", A.Alignas(const("8")))
    add("Alignas type", A.Alignas(tn))
    add("Alignas None", A.Alignas(None))
    add("Alignas int const", A.Alignas(const(8)))
    add("Enumerator plain", A.Enumerator("A", None))
    add("Enumerator value", A.Enumerator("A", const("1")))
    add("Enumerator None name", A.Enumerator(None, None))
    add("Enumerator int name value", A.Enumerator(4, const(5)))
    add("Enumerator braces name", A.Enumerator("{x}", const("{y}")))
    add("EnumeratorList direct", A.EnumeratorList([A.Enumerator("A", None),
                                                   A.Enumerator("B", const("1"))]))
    fdecl = decl("f", A.FuncDecl(A.ParamList([decl("a", typedecl("a")),
                                              A.EllipsisParam()]), typedecl("f")))
    add("FuncDef", A.FuncDef(fdecl, None, A.Compound([A.Return(ID("a"))])))
    add("FuncDef K&R", A.FuncDef(decl("f", A.FuncDecl(A.ParamList([ID("a"), ID("b")]),
        typedecl("f"))), [decl("a", typedecl("a")), decl("b", typedecl("b",
        ["char"]))], A.Compound(None)))
    add("FuncDef empty param_decls", A.FuncDef(fdecl, [], A.Compound([])))
    add("FuncDef None body", A.FuncDef(fdecl, None, None))
    add("FuncDef None decl", A.FuncDef(None, None, A.Compound([])))
    add("FuncDef non-compound body", A.FuncDef(fdecl, None, ID("a")))
    add("FileAST empty", A.FileAST([]))
    add("FileAST None", A.FileAST(None))
    add("FileAST mixed", A.FileAST([decl("a", typedecl("a")), A.Pragma("p"),
        A.FuncDef(fdecl, None, A.Compound([])), A.Typedef("T", [], ["typedef"],
        typedecl("T")), A.Pragma(const('"q"', "string")), ID("stray"),
        A.StaticAssert(const("1"), None), A.EmptyStatement()]))
    add("FileAST None item", A.FileAST([None]))
    add("Compound None", A.Compound(None))
    add("Compound empty", A.Compound([]))
    every_stmt = [
        decl("a", typedecl("a")), A.Assignment("=", ID("a"), const("1")),
        A.Cast(tn, ID("a")), A.UnaryOp("p++", ID("a")),
        A.BinaryOp("+", ID("a"), ID("b")), A.TernaryOp(ID("a"), ID("b"), ID("c")),
        A.FuncCall(ID("f"), None), A.ArrayRef(ID("a"), const("0")),
        A.StructRef(ID("a"), ".", ID("b")), const("1"), ID("a"),
        A.Typedef("T", [], ["typedef"], typedecl("T")),
        A.ExprList([ID("a"), ID("b")]),
        A.CompoundLiteral(tn, A.InitList([const("1")])),
        A.Compound([ID("x")]), A.Compound([]),
        A.If(ID("c"), ID("t"), None), A.If(ID("c"), A.Compound([ID("t")]),
                                           A.Compound([ID("e")])),
        A.If(ID("c"), ID("t"), A.If(ID("d"), ID("u"), ID("v"))),
        A.While(ID("c"), ID("s")), A.DoWhile(ID("c"), ID("s")),
        A.For(None, None, None, ID("s")),
        A.For(A.DeclList([decl("i", typedecl("i"), init=const("0"))]), ID("c"),
              A.UnaryOp("p++", ID("i")), A.Compound([ID("s")])),
        A.Switch(ID("c"), A.Compound([A.Case(const("1"), [ID("a"), A.Break()]),
                                      A.Default([ID("b")])])),
        A.Case(const("1"), []), A.Default([]),
        A.Label("l", ID("s")), A.Label("l", A.EmptyStatement()),
        A.Label("l", A.Compound([])), A.Goto("l"),
        A.Return(None), A.Return(ID("a")), A.Break(), A.Continue(),
        A.EmptyStatement(), A.Pragma("p"), A.Pragma(const('"q"', "string")),
        A.StaticAssert(const("1"), const('"m"', "string")),
        A.StaticAssert(const("1"), None),
        A.InitList([const("1")]), A.NamedInitializer([ID("a")], const("1")),
        A.DeclList([decl("a", typedecl("a")), decl("b", typedecl("b"))]),
        A.Struct("s", [decl("a", typedecl("a"))]), A.Union("u", None),
        A.Enum("e", A.EnumeratorList([A.Enumerator("A", None)])),
        A.Enumerator("E", None), A.EllipsisParam(), A.IdentifierType(["int"]),
        tn, typedecl("t"), A.PtrDecl([], typedecl("p")),
        A.ArrayDecl(typedecl("r"), const("3"), []),
        A.FuncDecl(None, typedecl("g")), A.ParamList([decl("a", typedecl("a"))]),
        A.Alignas(const("4")),
        A.FuncDef(fdecl, None, A.Compound([ID("x")])),
        A.FileAST([decl("a", typedecl("a"))]),
    ]
    add("Compound every stmt", A.Compound(list(every_stmt)))
    add("Compound nested every stmt", A.Compound([A.Compound([A.Compound(
        list(every_stmt))])]))
    add("Compound None item", A.Compound([ID("a"), None]))
    add("Compound int-valued item", A.Compound([const(3)]))
    for wrapper_name, mk in (
        ("If true", lambda s: A.If(ID("c"), s, None)),
        ("If false", lambda s: A.If(ID("c"), ID("t"), s)),
        ("While", lambda s: A.While(ID("c"), s)),
        ("DoWhile", lambda s: A.DoWhile(ID("c"), s)),
        ("For", lambda s: A.For(None, None, None, s)),
        ("Switch", lambda s: A.Switch(ID("c"), s)),
        ("Case", lambda s: A.Case(const("1"), [s, s])),
        ("Default", lambda s: A.Default([s, s])),
        ("Label", lambda s: A.Label("l", s)),
    ):
        for i, st in enumerate(every_stmt):
            add("%s wrapping stmt %d %s" % (wrapper_name, i, type(st).__name__),
                A.Compound([mk(st)]))
    add("CompoundLiteral", A.CompoundLiteral(tn, A.InitList([const("1"), const("2")])))
    add("CompoundLiteral None", A.CompoundLiteral(None, None))
    add("EmptyStatement", A.EmptyStatement())
    add("ParamList", A.ParamList([decl("a", typedecl("a")), tn, A.EllipsisParam(),
                                  ID("k")]))
    add("ParamList empty", A.ParamList([]))
    add("ParamList None", A.ParamList(None))
    add("Return exprlist", A.Return(A.ExprList([ID("a"), ID("b")])))
    add("Return int-valued", A.Return(const(1)))
    add("TernaryOp", A.TernaryOp(ID("a"), ID("b"), ID("c")))
    add("TernaryOp nested", A.TernaryOp(A.TernaryOp(ID("a"), ID("b"), ID("c")),
        A.ExprList([ID("d"), ID("e")]), A.InitList([ID("f")])))
    add("TernaryOp None", A.TernaryOp(None, None, None))
    add("TernaryOp int-valued", A.TernaryOp(ID("a"), const(1), ID("c")))
    add("If None cond", A.If(None, ID("t"), ID("e")))
    add("If None iftrue", A.If(ID("c"), None, None))
    add("For all", A.For(A.Assignment("=", ID("i"), const("0")), A.BinaryOp("<",
        ID("i"), ID("n")), A.ExprList([A.UnaryOp("p++", ID("i")), A.UnaryOp("p--",
        ID("j"))]), A.EmptyStatement()))
    add("For None stmt", A.For(None, None, None, None))
    add("While None cond", A.While(None, ID("s")))
    add("While None stmt", A.While(ID("c"), None))
    add("DoWhile None cond", A.DoWhile(None, ID("s")))
    add("DoWhile None stmt", A.DoWhile(ID("c"), None))
    add("StaticAssert msg", A.StaticAssert(const("1"), const('"m"', "string")))
    add("StaticAssert no msg", A.StaticAssert(const("1"), None))
    add("StaticAssert None cond", A.StaticAssert(None, None))
    add("Switch None cond", A.Switch(None, A.Compound([])))
    add("Switch None stmt", A.Switch(ID("c"), None))
    add("Case None stmts", A.Case(const("1"), None))
    add("Case None expr", A.Case(None, []))
    add("Case int expr", A.Case(const(1), [ID("a")]))
    add("Case None stmt item", A.Case(const("1"), [ID("a"), None]))
    add("Case nested", A.Case(const("1"), [A.Case(const("2"), [ID("a"),
        A.Compound([ID("b")])]), A.Default([A.If(ID("c"), ID("d"), ID("e"))])]))
    add("Default None stmts", A.Default(None))
    add("Default None stmt item", A.Default([None]))
    add("Default tuple stmts", A.Default((ID("a"), A.Break())))
    add("Label None name", A.Label(None, ID("s")))
    add("Label None stmt", A.Label("l", None))
    add("Goto None", A.Goto(None))
    add("Goto int", A.Goto(3))
    add("EllipsisParam", A.EllipsisParam())
    add("Struct None decls", A.Struct("s", None))
    add("Struct empty decls", A.Struct("s", []))
    add("Struct no name", A.Struct(None, [decl("a", typedecl("a"))]))
    add("Struct members", A.Struct("s", [decl("a", typedecl("a")),
        decl(None, typedecl(None), bitsize=const("0")), A.Pragma("pack"),
        A.StaticAssert(const("1"), None),
        decl(None, A.Struct(None, [decl("x", typedecl("x"))])),
        decl("u", A.TypeDecl("u", [], None, A.Union("uu", [decl("i", typedecl("i")),
             decl("e", A.TypeDecl("e", [], None, A.Enum(None, A.EnumeratorList(
                 [A.Enumerator("P", None), A.Enumerator("Q", const("4"))]))))])))]))
    add("Struct tuple decls", A.Struct("s", (decl("a", typedecl("a")),)))
    add("Struct int name", A.Struct(7, None))
    add("Struct empty-string name", A.Struct("", []))
    add("Struct None member", A.Struct("s", [None]))
    add("Union None decls", A.Union("u", None))
    add("Union empty decls", A.Union(None, []))
    add("Union members", A.Union("u", [decl("a", typedecl("a")),
                                       decl("b", typedecl("b", ["float"]))]))
    add("Typename", tn)
    add("Typename named", A.Typename("nm", ["const"], None, typedecl("nm")))
    add("Typename None type", A.Typename(None, [], None, None))
    add("NamedInitializer", A.NamedInitializer([ID("a"), const("1"), ID("b"),
        A.BinaryOp("+", ID("i"), const("1"))], const("5")))
    add("NamedInitializer empty", A.NamedInitializer([], A.InitList([const("1")])))
    add("NamedInitializer None names", A.NamedInitializer(None, const("1")))
    add("NamedInitializer None expr", A.NamedInitializer([ID("a")], None))
    add("NamedInitializer exprlist", A.NamedInitializer([ID("a")],
                                                        A.ExprList([ID("x"), ID("y")])))
    add("NamedInitializer ID None name", A.NamedInitializer([ID(None)], const("1")))
    add("NamedInitializer int index", A.NamedInitializer([const(2)], const("1")))

    # _generate_type shapes
    P, Ar, F = A.PtrDecl, A.ArrayDecl, A.FuncDecl
    plist = A.ParamList([decl("a", typedecl("a")), A.Typename(None, [], None,
                                                              typedecl(None, ["char"]))])
    add("FuncDecl", F(plist, typedecl("f")))
    add("FuncDecl no args", F(None, typedecl("f")))
    add("FuncDecl None type", F(None, None))
    add("ArrayDecl", Ar(typedecl("a"), const("3"), []))
    add("ArrayDecl quals", Ar(typedecl("a"), const("3"), ["static", "const"]))
    add("ArrayDecl quals no dim", Ar(typedecl("a"), None, ["const"]))
    add("ArrayDecl None quals", Ar(typedecl("a"), None, None))
    add("ArrayDecl int dim", Ar(typedecl("a"), const(3), []))
    add("TypeDecl", typedecl("t", ["unsigned", "int"], ["const", "volatile"]))
    add("TypeDecl None type", A.TypeDecl("t", [], None, None))
    add("TypeDecl None quals", A.TypeDecl("t", None, None, A.IdentifierType(["int"])))
    add("TypeDecl struct", A.TypeDecl("t", [], None, A.Struct("s", None)))
    add("PtrDecl", P(["const"], typedecl("p")))
    add("PtrDecl None quals", P(None, typedecl("p")))
    mods = {
        "P": lambda t: P([], t), "Pc": lambda t: P(["const"], t),
        "Pcv": lambda t: P(["const", "volatile"], t),
        "A": lambda t: Ar(t, const("2"), []), "A0": lambda t: Ar(t, None, []),
        "Aq": lambda t: Ar(t, ID("n"), ["static"]),
        "F": lambda t: F(plist, t), "F0": lambda t: F(None, t),
    }
    names = sorted(mods)
    for declname in ("x", None, ""):
        for m1 in names:
            add("type %s name=%r" % (m1, declname),
                decl(declname, mods[m1](typedecl(declname))))
            for m2 in names:
                add("type %s(%s) name=%r" % (m1, m2, declname),
                    decl(declname, mods[m1](mods[m2](typedecl(declname)))))
    for m1 in ("P", "Pc", "A", "F"):
        for m2 in ("P", "Pc", "A", "F"):
            for m3 in ("P", "Pc", "A", "F"):
                t = mods[m1](mods[m2](mods[m3](typedecl("x", ["char"], ["const"]))))
                add("type3 %s(%s(%s))" % (m1, m2, m3), decl("x", t))
                add("typename3 %s(%s(%s))" % (m1, m2, m3),
                    A.Typename(None, [], None,
                               mods[m1](mods[m2](mods[m3](typedecl(None))))))
                add("bare3 %s(%s(%s))" % (m1, m2, m3), t)
    add("type int declname", decl("x", P([], Ar(A.TypeDecl(5, [], None,
        A.IdentifierType(["int"])), None, []))))
    add("type int declname array", decl("x", Ar(A.TypeDecl(5, [], None,
        A.IdentifierType(["int"])), None, [])))
    add("type int declname ptr", decl("x", P([], A.TypeDecl(5, [], None,
        A.IdentifierType(["int"])))))
    add("type int declname qual ptr", decl("x", P(["const"], A.TypeDecl(5, [], None,
        A.IdentifierType(["int"])))))
    add("type int declname func after ptr", decl("x", F(None, P([], A.TypeDecl(5, [],
        None, A.IdentifierType(["int"]))))))
    add("type bottom IdentifierType", decl("x", P([], A.IdentifierType(["int"]))))
    add("type bottom Typename", decl("x", P([], A.Typename(None, [], None,
                                                            typedecl("q")))))
    add("type bottom Decl", decl("x", P([], decl("y", typedecl("y")))))
    add("type bottom Struct", decl("x", Ar(A.Struct("s", None), None, [])))
    add("type bottom None", decl("x", P([], None)))
    add("type bottom ID", decl("x", F(None, ID("zz"))))
    add("Typename of Typename", A.Typename(None, [], None, A.Typename("in", [], None,
                                                                       typedecl("in"))))
    add("unknown node class", type("Mystery", (A.Node,), {
        "__slots__": (), "children": lambda self: (("a", ID("m1")), ("b", ID("m2"))),
        "__iter__": lambda self: iter(())})())
    return cases


def run_hand_built():
    for label, node in hand_built():
        emit("-" * 70)
        emit("HAND ", label)
        for rp in (False, True):
            g = c_generator.CGenerator(reduce_parentheses=rp)
            g.indent_level = 0
            try:
                if node is None:
                    r = "OK " + repr(g.generic_visit(None))
                else:
                    r = "OK " + repr(g.visit(node))
            except RecursionError:
                raise
            except Exception as e:  # noqa: BLE001
                r = describe_exc(e)
            emit("rp=%s %s lvl=%r" % (rp, r, g.indent_level))
        if node is None:
            continue
        for add_indent in (False, True):
            g = c_generator.CGenerator()
            g.indent_level = 1
            try:
                r = "OK " + repr(g._generate_stmt(node, add_indent=add_indent))
            except Exception as e:  # noqa: BLE001
                r = describe_exc(e)
            emit("stmt add_indent=%s %s lvl=%r" % (add_indent, r, g.indent_level))
        g = c_generator.CGenerator()
        for meth, kwargs in (
            ("_generate_type", {}),
            ("_generate_type", {"emit_declname": False}),
            ("_generate_decl", {}),
            ("_visit_expr", {}),
            ("_parenthesize_unless_simple", {}),
            ("_is_simple_node", {}),
        ):
            try:
                r = "OK " + repr(getattr(g, meth)(node, **kwargs))
            except Exception as e:  # noqa: BLE001
                r = describe_exc(e)
            emit("%s%r %s" % (meth, sorted(kwargs.items()), r))
        for name in ("struct", "union", "enum", "other"):
            g = c_generator.CGenerator()
            g.indent_level = 2
            try:
                r = "OK " + repr(g._generate_struct_union_enum(node, name))
            except Exception as e:  # noqa: BLE001
                r = describe_exc(e)
            emit("_generate_struct_union_enum %s %s lvl=%r" % (name, r,
                                                              g.indent_level))


def run_misc():
    emit("#" * 70)
    emit("MISC")
    g = c_generator.CGenerator()
    emit(repr(sorted(g.precedence_map.items())))
    emit(repr(sorted(n for n in dir(c_generator.CGenerator)
                     if n.startswith("visit_"))))
    emit(repr(c_generator.CGenerator._generate_type.__defaults__))
    emit(repr(c_generator.CGenerator._generate_stmt.__defaults__))
    emit(repr(c_generator.CGenerator.visit_Decl.__defaults__))
    emit(repr(c_generator.CGenerator.__init__.__defaults__))
    # The same generator instance reused across several visits keeps state.
    src = "struct s { int a; struct { int b; } c; }; void f(void) { if (a) { b; } }"
    ast = c_parser.CParser().parse(src, "reuse.c")
    emit(repr(g.visit(ast)))
    emit(repr(g.indent_level))
    emit(repr(g.visit(ast.ext[0])))
    emit(repr(g.visit(ast.ext[1].body)))
    g.indent_level = 5
    emit(repr(g.visit(ast.ext[0])))
    emit(repr(g.visit(ast.ext[1].body)))
    emit(repr(g.visit(ast.ext[1])))
    emit(repr(g.indent_level))
    # visit_Decl with no_type
    d = c_parser.CParser().parse(
        "int *a[3] = {0}, b; struct s { int c : 3, *d[2]; } v = {1}, *w;", "nt.c")
    for ext in list(d.ext) + list(d.ext[2].type.type.decls):
        emit(repr(g.visit_Decl(ext, no_type=True)))
        emit(repr(g.visit_Decl(ext)))
    # A subclass overriding one visit method is still dispatched to.
    class Sub(c_generator.CGenerator):
        def visit_ID(self, n):
            return "<" + n.name + ">"

        def visit_Constant(self, n):
            return "#" + n.value
    big = c_parser.CParser().parse(
        "int x = a + b * (c - 1); struct s { int q[N]; } v = {.q[M] = z};"
        "enum e { A = k, B }; int f(int p[n]) { switch (p) { case 3: return w ? u : t; }"
        " for (i = 0; i < 3; i++) g(i, j)[k].m = (long) i; }", "sub.c")
    emit(Sub().visit(big))
    emit(Sub(reduce_parentheses=True).visit(big))


def main():
    n = 0
    for path in c_files():
        with open(path) as fh:
            text = fh.read()
        run_source("FILE " + path, text, path)
        n += 1
        # Poor man's preprocessing (no cpp available / needed): drop comments
        # and every directive except #pragma, then try again.
        stripped = strip_comments_and_directives(text)
        if stripped != text:
            run_source("FILE(stripped) " + path, stripped, path)
            n += 1
    for i, snip in enumerate(SNIPPETS):
        run_source("SNIPPET %d %r" % (i, snip), snip, "snip%d.c" % i)
        n += 1
    for i, snip in enumerate(generated_snippets()):
        run_source("GENERATED %d %r" % (i, snip), snip, "gen%d.c" % i)
        n += 1
    run_hand_built()
    run_misc()
    emit("TOTAL SOURCE INPUTS %d" % n)


if __name__ == "__main__":
    main()
