"""Behaviour digest for pycparser's statement / top-level parsing and token
plumbing.

Run as:   cd <repo root> && /venv/bin/python equiv.py > out.txt

For every input prints either the AST dump (with coordinates) and the
regenerated C, or the exception type and message. Fully deterministic.
"""

import io
import itertools
import os
import re
import sys

sys.path.insert(0, os.getcwd())

from pycparser import c_generator  # noqa: E402
from pycparser.c_lexer import CLexer  # noqa: E402
from pycparser.c_parser import CParser, _TokenStream  # noqa: E402


def digest(text, filename="", parser=None):
    """Return a textual digest of parsing (and regenerating) `text`."""
    out = []
    try:
        parser = parser or CParser()
        ast = parser.parse(text, filename)
    except RecursionError:
        return "EXC RecursionError\n"
    except Exception as e:  # noqa: BLE001
        return f"EXC {type(e).__name__}: {e}\n"
    buf = io.StringIO()
    ast.show(buf=buf, showcoord=True, attrnames=True, nodenames=True)
    out.append("AST:\n" + buf.getvalue())
    try:
        gen = c_generator.CGenerator().visit(ast)
        out.append("GEN:\n" + gen + "\n")
    except RecursionError:
        out.append("GENEXC RecursionError\n")
    except Exception as e:  # noqa: BLE001
        out.append(f"GENEXC {type(e).__name__}: {e}\n")
    return "".join(out)


def section(title):
    print("=" * 72)
    print(title)
    print("=" * 72)


def show_case(label, text, filename=""):
    print(f"--- {label}")
    print("SRC: " + repr(text))
    sys.stdout.write(digest(text, filename))


# ----------------------------------------------------------------------
# 1. Files
# ----------------------------------------------------------------------
def scrub(text):
    def blank(m):
        return re.sub(r"[^\n]", " ", m.group(0))

    text = re.sub(r"/\*.*?\*/", blank, text, flags=re.S)
    text = re.sub(r"//[^\n]*", blank, text)
    lines = []
    for line in text.split("\n"):
        stripped = line.lstrip()
        if stripped.startswith("#") and not stripped.startswith("#pragma"):
            line = ""
        lines.append(line)
    return "\n".join(lines)


def run_files():
    section("FILES")
    paths = []
    for root in ("tests/c_files", "examples/c_files"):
        for dirpath, dirnames, filenames in os.walk(root):
            dirnames.sort()
            for fn in sorted(filenames):
                if fn.endswith((".c", ".h")):
                    paths.append(os.path.join(dirpath, fn).replace(os.sep, "/"))
    for p in sorted(paths):
        with open(p, encoding="utf-8", errors="replace") as f:
            text = f.read()
        print(f"--- file {p}")
        sys.stdout.write(digest(text, p))
        # Same file with comments blanked and non-pragma directives dropped
        # (line structure kept), so that more of them get past line 1.
        print(f"--- file {p} (scrubbed)")
        sys.stdout.write(digest(scrub(text), p))


# ----------------------------------------------------------------------
# 2. Hand-written snippets
# ----------------------------------------------------------------------
HAND_TOPLEVEL = [
    # empty / trivial translation units
    "",
    " ",
    "\n\n",
    ";",
    ";;;",
    "; int a; ;",
    "/* only a comment */",
    "// line comment\n",
    # plain declarations
    "int a;",
    "int a, b, *c, d[3];",
    "int a = 1, b = 2;",
    "int a = {1}, b[2] = {1, 2};",
    "static const unsigned long int x = 5UL;",
    "extern int f(void);",
    "extern int f(int, char *), g(void);",
    "int (*fp)(int, char);",
    "int (*fparr[3])(void);",
    "typedef int T; T x; T *y, z[2];",
    "typedef int T; T f(T a) { T b = a; return b; }",
    "typedef int T; int g(void) { int T = 3; return T; }",
    "typedef int T; void g(void) { T T; }",
    "typedef int T; void g(void) { unsigned T; T = 1; }",
    "typedef int T, *PT; PT p; T t;",
    "typedef struct S { int a; } S; S s;",
    "typedef int T; typedef T U; U u;",
    "struct S;",
    "struct S { int a; char b; };",
    "struct { int a; } anon;",
    "union U { int a; float f; } u;",
    "enum E { A, B = 2, C };",
    "enum E;",
    "enum { X, Y } e;",
    "struct S { int a : 3; unsigned : 2; int b; };",
    "const struct S *p;",
    "static struct S { int a; } s1, s2;",
    "int;",
    "const;",
    "static;",
    "typedef int;",
    "long long;",
    "inline int f(void) { return 1; }",
    "_Noreturn void die(void);",
    "_Thread_local int tls;",
    "_Alignas(8) int aligned;",
    "_Alignas(double) char buf[8];",
    "_Atomic int ai;",
    "_Atomic(int) ai2;",
    "_Atomic(int *) aip;",
    "register int r;",
    "auto int au;",
    "volatile int * const restrict p;",
    "__int128 big;",
    "_Bool flag; _Complex double z;",
    # function definitions
    "int main(void) { return 0; }",
    "int main() { }",
    "void f(void) { ; }",
    "void f(int a, int b) { a = b; }",
    "int *f(void) { return 0; }",
    "int (*f(void))(int) { return 0; }",
    "static inline int f(int x) { return x + 1; }",
    "struct S f(void) { struct S s; return s; }",
    "enum E g(void) { return A; }",
    # implicit int / K&R
    "foo() { return 5; }",
    "foo(a, b) { return a; }",
    "foo(a, b) int a; char b; { return a; }",
    "int foo(a, b) int a; char b; { return a; }",
    "static foo(a) int a; { return a; }",
    "static foo() { return 1; }",
    "const foo() { return 1; }",
    "*foo() { return 0; }",
    "(foo)() { return 0; }",
    "int foo(a) int a; int b; { }",
    "int foo(a) int a, b; char c; { }",
    "int foo(a) struct S { int x; } a; { return a.x; }",
    # function definition errors
    "foo();",
    "foo() int a;",
    "foo",
    "foo;",
    "foo = 3;",
    "foo bar;",
    "foo() return 1;",
    "int foo(a) int a; return a;",
    "int foo(a) int a;",
    "int foo(void) { return 0;",
    "int foo(void) return 0; }",
    "typedef int foo(void) { }",
    "typedef foo() { }",
    "typedef int T; T() { }",
    "typedef int T; T(x) { }",
    "typedef int T; int T(void) { }",
    "typedef int T; int T;",
    "int T; typedef int T;",
    "typedef int T; typedef int T;",
    "int x; int x;",
    "int f(void) { typedef int x; int x; }",
    "int f(void) { int x; typedef int x; }",
    "int x, typedef y;",
    "int enum E { A } x;",
    "struct S { int a; } int x;",
    "int a[;",
    "int a = ;",
    "int a b;",
    "int a",
    "int",
    "int a,",
    "int a, ;",
    "int (a;",
    "int a);",
    "}",
    "{",
    "{ }",
    "{ int a; }",
    "int a; }",
    "int f(void) { } }",
    "int f(void) { { } } }",
    "int f(void) { { }",
    "int f(void) { ( }",
    "int f(void) { ) }",
    "= 3;",
    "3;",
    "+;",
    "return 0;",
    "if (1) { }",
    "x: int a;",
    "int a; 5",
    "int a; )",
    "int a; ]",
    "int @;",
    "int a = 'ab",
    'char *s = "abc',
    "int a = 0x;",
    "int $x;",
    "int a; `",
    # preprocessor-ish
    "#define X 1\nint a;",
    "# define X 1",
    "#include <stdio.h>",
    "int a;\n#if 0\nint b;\n#endif",
    "#",
    "int a; #",
    '#line 10 "foo.c"\nint a;\nint b;',
    '# 20 "bar.h" 1 3\nint a;\n# 30 "baz.h" 2\nint b;',
    '#line 5\nint a;\n@',
    '# 7 "x.c"\nfoo() int a;',
    '# 7 "x.c"\nint f(void) {\n# 9 "y.c"\nreturn 0;\n}\n}',
    '#line "foo.c" 10\nint a;',
    "#line\nint a;",
    "#line abc\nint a;",
    # pragmas at top level
    "#pragma once",
    "#pragma",
    "#pragma  pack(push, 1)\nint a;\n#pragma pack(pop)",
    "#pragma a\n#pragma b\n#pragma c",
    "int a;\n#pragma omp parallel\nint b;",
    '_Pragma("once")',
    '_Pragma("once") int a;',
    '_Pragma("a" "b") int a;',
    "_Pragma(once)",
    '_Pragma "once"',
    '_Pragma("once"',
    "_Pragma()",
    "_Pragma",
    '_Pragma(L"wide")',
    "struct S {\n#pragma pack(1)\nint a;\n#pragma pack()\n};",
    'struct S { _Pragma("pack(1)") int a; };',
    "struct S {\n#pragma only\n};",
    # static_assert at top level
    '_Static_assert(1, "msg");',
    "_Static_assert(1);",
    '_Static_assert(sizeof(int) == 4, "int is " "4 bytes");',
    '_Static_assert(1, "msg")',
    "_Static_assert(1, 2);",
    "_Static_assert();",
    "_Static_assert(,);",
    "_Static_assert 1;",
    "_Static_assert(1",
    "_Static_assert(1,);",
    '_Static_assert(1, "a", "b");',
    '_Static_assert(1, L"wide");',
    '_Static_assert(1, "m"); int a; _Static_assert(a, "n");',
    'struct S { int a; _Static_assert(1, "in struct"); };',
    'struct S { _Static_assert(1, "only"); };',
    'int f(void) { _Static_assert(1, "in func"); return 0; }',
    'int f(void) { if (1) _Static_assert(1, "bad"); }',
    'int f(void) { l: _Static_assert(1, "bad"); }',
    'int f(void) { for (;;) _Static_assert(1, "bad"); }',
    'int f(void) { switch (1) { case 1: _Static_assert(1, "x"); } }',
    'int f(void) { _Static_assert(1, "no semi") }',
    # lexer errors hit by a look-ahead at interesting points
    "int foo() @",
    "int foo() @ { }",
    "int foo(a) $ int a; { }",
    "int foo(a) int a; @ { }",
    "int foo(a) 'x",
    "foo() @",
    "int foo @",
    "#pragma p\n@",
    "_Pragma @",
    '_Pragma("p") @',
    "_Static_assert @",
    "_Static_assert(1 @",
    "void f(void) { l: @ }",
    "void f(void) { if (a) b; @ }",
    "void f(void) { if (a) b; else @ }",
    "void f(void) { for (@;;) ; }",
    "void f(void) { for (int i = 0; @;) ; }",
    "void f(void) { for (i = 0; @;) ; }",
    "void f(void) { x @ : ; }",
    "void f(void) { case 1 @ : ; }",
    "void f(void) { default @ : ; }",
    "void f(void) {\n#pragma p\n@ }",
    # multi-line for coordinates
    "int a;\n\n  int b;\n\tint c;\n",
    "int\nf\n(\nvoid\n)\n{\nreturn\n0\n;\n}\n",
    "foo\n(\n)\n{\n}\n",
    "static\nfoo(a)\n  int a;\n{\n  return a;\n}\n",
]

# Statement bodies, wrapped into `void f(void) { <body> }` (on multiple lines,
# so coordinates are interesting).
HAND_STATEMENTS = [
    "",
    ";",
    ";;",
    "{}",
    "{{}}",
    "{;}",
    "{ int a; { int b; } }",
    "int a; a = 1; int b; b = a;",
    "a;",
    "a, b, c;",
    "a = b = c;",
    "f();",
    "f(1, 2);",
    "(void)0;",
    "1;",
    '"str";',
    "x++; --y;",
    "*p = 1;",
    "&a;",
    "sizeof a;",
    "sizeof(int);",
    "({ int a; a; });",
    "x = ({ 1; });",
    # labels
    "l: ;",
    "l: x = 1;",
    "l: m: n: ;",
    "l: }",
    "l: m: }",
    "l: { }",
    "l: int a;",
    "l:\n#pragma p\nx = 1;",
    "l:\n#pragma p\n#pragma q\n;",
    'l: _Pragma("p") x = 1;',
    "l:\n#pragma p\n}",
    "l",
    "l:",
    "l ;",
    "l: l: ;",
    "T: ;",
    "typedef int T; T: ;",
    "goto l; l: ;",
    "goto;",
    "goto 5;",
    "goto l",
    "goto l l;",
    "goto *p;",
    "typedef int T; goto T;",
    # jumps
    "break;",
    "continue;",
    "return;",
    "return 1;",
    "return 1, 2;",
    "return (1);",
    "return x = 1;",
    "break",
    "continue",
    "return",
    "return 1",
    "break 1;",
    "continue 1;",
    "return int;",
    "return ;;",
    "return {1};",
    # if
    "if (a) b;",
    "if (a) b; else c;",
    "if (a) { b; } else { c; }",
    "if (a) if (b) c; else d;",
    "if (a) if (b) c; else d; else e;",
    "if (a) ; else ;",
    "if (a) b; else if (c) d; else e;",
    "if (a, b) c;",
    "if (a = 1) c;",
    "if (a)\n#pragma p\nb;",
    "if (a)\n#pragma p\nb;\nelse\n#pragma q\n#pragma r\nc;",
    "if (a) int b;",
    "if (a) else b;",
    "if a b;",
    "if (a b;",
    "if () b;",
    "if (a)",
    "if (a) }",
    "if",
    "if (",
    "if (a) b; else",
    "if (a) b; else }",
    "else b;",
    "if (int a) b;",
    "if (a) l: b;",
    "if (a) case 1: b;",
    # switch
    "switch (a) { }",
    "switch (a) ;",
    "switch (a) b;",
    "switch (a) { case 1: b; break; default: c; }",
    "switch (a) { case 1: case 2: b; }",
    "switch (a) { case 1: }",
    "switch (a) { default: }",
    "switch (a) { case 1: default: case 2: }",
    "switch (a) { default: b; c; case 1: d; e; }",
    "switch (a) { b; case 1: c; }",
    "switch (a) { int x; case 1: x = 1; }",
    "switch (a) { case 1: int x; }",
    "switch (a) { case 1: { int x; } break; }",
    "switch (a) case 1: b;",
    "switch (a) case 1: case 2: b;",
    "switch (a) default: b;",
    "switch (a) { case 1 + 2: b; case 'c': d; case A: e; }",
    "switch (a) { case 1 ... 3: b; }",
    "switch (a) { case: b; }",
    "switch (a) { case 1 b; }",
    "switch (a) { case 1, 2: b; }",
    "switch (a) { case x = 1: b; }",
    "switch (a) { default b; }",
    "switch (a) { default: default: b; }",
    "switch (a) { case 1:\n#pragma p\nb; }",
    "switch (a) { case 1:\n#pragma p\n}",
    "switch (a) { default:\n#pragma p\n#pragma q\nb; c; }",
    "switch (a) {\n#pragma p\ncase 1: b; }",
    "switch (a) { switch (b) { case 1: c; } case 2: d; }",
    "switch (a) { case 1: switch (b) { case 2: c; default: d; } e; }",
    "switch (a) { l: case 1: b; }",
    "switch (a) { case 1: l: b; }",
    "switch a { }",
    "switch () { }",
    "switch (a",
    "switch (a)",
    "switch",
    "switch (a)\n#pragma p\n{ case 1: b; }",
    "case 1: ;",
    "default: ;",
    "case 1: x; default: y;",
    "while (1) case 1: x;",
    # while / do
    "while (a) b;",
    "while (a) { b; }",
    "while (a) ;",
    "while (a, b) c;",
    "while (a)\n#pragma p\nb;",
    "while (a) while (b) c;",
    "while () b;",
    "while a b;",
    "while (a b;",
    "while (a)",
    "while (a) }",
    "while",
    "while (a) int b;",
    "while (int a) b;",
    "do a; while (b);",
    "do { a; } while (b);",
    "do ; while (b);",
    "do do a; while (b); while (c);",
    "do\n#pragma p\na;\nwhile (b);",
    "do a; while (b)",
    "do a; while b;",
    "do a; while ();",
    "do a; while (b;",
    "do a while (b);",
    "do a;",
    "do a; until (b);",
    "do while (b);",
    "do",
    "do int a; while (b);",
    "do { } while (a, b);",
    # for
    "for (;;) ;",
    "for (;;) { }",
    "for (a; b; c) d;",
    "for (a = 0; a < 10; a++) d;",
    "for (a = 0, b = 1; a < b; a++, b--) d;",
    "for (int i = 0; i < 10; i++) d;",
    "for (int i = 0, j = 1; i < j; ) d;",
    "for (int i = 0;;) d;",
    "for (int i;;) { int i; }",
    "for (static int i = 0; i; i++) d;",
    "for (struct S { int a; } s; ; ) d;",
    "for (typedef int T; ; ) d;",
    "typedef int T; for (T i = 0; i; ) d;",
    "typedef int T; for (T = 0; T; ) d;",
    "for (; a; ) d;",
    "for (;; c) d;",
    "for (a;;) d;",
    "for (;;)\n#pragma p\nd;",
    "for (;;) for (;;) d;",
    "for (int i = 0; i < 2; i++) for (int j = 0; j < 2; j++) d;",
    "for (;;)",
    "for (;;) }",
    "for (;) d;",
    "for () d;",
    "for (;;;) d;",
    "for (a; b; c; d) e;",
    "for (a; b) e;",
    "for (int i = 0) d;",
    "for (int i = 0; i) d;",
    "for (int i = 0; int j; ) d;",
    "for (;; int k) d;",
    "for a;;) d;",
    "for (;; d;",
    "for",
    "for (",
    "for (int",
    "for (int i",
    "for (;;) int a;",
    "for (_Static_assert(1, \"x\"); ; ) d;",
    "for (;;) break;",
    "for (;;) continue;",
    "for (;;) return;",
    "for (;;) goto l;",
    # pragmas as statements
    "\n#pragma p\n",
    "\n#pragma p\n#pragma q\n",
    "\n#pragma p\na;",
    "a;\n#pragma p\n",
    "\n#pragma\n",
    "\n#pragma   spaced   out   \n",
    '_Pragma("p");',
    '_Pragma("p")',
    '_Pragma("p") a;',
    '_Pragma("p") _Pragma("q") a;',
    '_Pragma("p")\n#pragma q\na;',
    'if (a) _Pragma("p") b; else _Pragma("q") c;',
    'if (a) _Pragma("p")',
    '_Pragma(p) a;',
    '_Pragma("p" a;',
    '_Pragma a;',
    "{\n#pragma p\n}",
    "{\n#pragma p\nint a;\n#pragma q\na = 1;\n}",
    "while (a)\n#pragma p\n{ b; }",
    "while (a)\n#pragma p\n}",
    "if (a)\n#pragma p\nelse b;",
    # static assert as block item
    '_Static_assert(1, "m");',
    "_Static_assert(1);",
    '_Static_assert(1, "m"); int a; _Static_assert(2, "n"); a = 1;',
    '{ _Static_assert(1, "m"); }',
    '_Static_assert(1, "m")',
    "_Static_assert(int);",
    "_Static_assert(sizeof(int));",
    '_Static_assert(a = 1, "m");',
    '_Static_assert(1, 2, "m");',
    # compound / scoping
    "typedef int T; { T a; { int T; T = 1; } T b; }",
    "typedef int T; { int T; } T c;",
    "int a; { typedef int a; a b; } a = 1;",
    "typedef int T; for (int T = 0; T; ) { T = 1; } T d;",
    "{ { { { ; } } } }",
    "{ int a; } }",
    "{ int a;",
    "{ ( }",
    "{ ] }",
    "{ a; b }",
    "{ a b; }",
    "int a = { 1 };",
    "int a[] = { 1, 2, };",
    "struct S s = { .a = 1, .b = { 2 } };",
    "int a[3] = { [0] = 1, [2] = 3 };",
    # stray tokens where a statement is expected
    ")",
    "]",
    ",",
    ":",
    "=",
    "else",
    "...",
    "->",
    ".",
    "?",
    "int",
    "int;",
    "struct;",
    "struct S;",
    "enum;",
    "typedef;",
    "#",
    "\n#define X\n",
    "@",
    "'a",
    "a = 'b';",
    "a = 1.5e3f + 0x1p3 + 017 + 0b11 + 1u;",
    'a = L"w" "x";',
    'a = "n" L"w";',
    'a = u8"x" u"y";',
]


def wrap_stmt(body):
    return "void f(void)\n{\n  " + body + "\n}\n"


def run_hand():
    section("HAND-WRITTEN TOP LEVEL")
    for i, src in enumerate(HAND_TOPLEVEL):
        show_case(f"top {i}", src, "top.c")
    section("HAND-WRITTEN STATEMENTS")
    for i, body in enumerate(HAND_STATEMENTS):
        show_case(f"stmt {i}", wrap_stmt(body), "stmt.c")
    section("HAND-WRITTEN STATEMENTS, UNWRAPPED AT FILE SCOPE")
    for i, body in enumerate(HAND_STATEMENTS):
        show_case(f"bare {i}", body)


# ----------------------------------------------------------------------
# 3. Systematically generated snippets
# ----------------------------------------------------------------------
def run_generated():
    section("GENERATED: statement nesting")
    heads = [
        "if (c) {B}",
        "if (c) {B} else {B}",
        "while (c) {B}",
        "do {B} while (c);",
        "for (i = 0; i < n; i++) {B}",
        "for (int i = 0; i < n; i++) {B}",
        "switch (c) {B}",
        "switch (c) {{ case 1: {B} default: {B} }}",
        "lbl: {B}",
        "{{ {B} }}",
        "\n#pragma nest\n{B}",
    ]
    leaves = [
        "x = 1;",
        ";",
        "break;",
        "return x;",
        "{ }",
        "case 2: y;",
        "int z;",
        '_Static_assert(1, "s");',
        "\n#pragma leaf\n",
        "",
    ]
    n = 0
    for h in heads:
        for leaf in leaves:
            body = h.replace("{B}", leaf).replace("{{", "{").replace("}}", "}")
            show_case(f"nest1 {n}", wrap_stmt(body), "nest.c")
            n += 1
    n = 0
    for h1, h2 in itertools.product(heads, repeat=2):
        inner = h2.replace("{B}", "x = 1;")
        body = h1.replace("{B}", inner).replace("{{", "{").replace("}}", "}")
        show_case(f"nest2 {n}", wrap_stmt(body), "nest.c")
        n += 1

    section("GENERATED: truncations of a program (every token prefix)")
    prog_tokens = (
        "typedef int T ; static T g = 1 ; \n#pragma top\n "
        "_Static_assert ( 1 , \"m\" ) ; old ( a , b ) int a ; T b ; { "
        "for ( int i = 0 ; i < a ; i ++ ) { if ( i ) continue ; else break ; } "
        "switch ( b ) { case 1 : a ++ ; break ; default : goto out ; } "
        "do a -- ; while ( a > 0 ) ; while ( b ) b -- ; "
        "out : return a , b ; } "
        "int main ( void ) { T x = old ( 1 , 2 ) ; _Pragma ( \"in\" ) x ++ ; "
        "_Static_assert ( 2 ) ; return x ; }"
    ).split(" ")
    for k in range(len(prog_tokens) + 1):
        src = " ".join(prog_tokens[:k])
        show_case(f"prefix {k}", src, "prefix.c")

    section("GENERATED: single token deletions")
    for k in range(len(prog_tokens)):
        src = " ".join(prog_tokens[:k] + prog_tokens[k + 1 :])
        show_case(f"delete {k}", src, "delete.c")

    section("GENERATED: single token substitutions")
    subs = [";", "{", "}", "(", ")", ":", "T", "zz", "int", "1", "return"]
    n = 0
    for k in range(0, len(prog_tokens), 3):
        sub = subs[n % len(subs)]
        src = " ".join(prog_tokens[:k] + [sub] + prog_tokens[k + 1 :])
        show_case(f"subst {k} {sub!r}", src, "subst.c")
        n += 1

    section("GENERATED: specifier / declarator / terminator matrix at top level")
    specs = [
        "",
        "int",
        "static",
        "static int",
        "typedef",
        "typedef int",
        "const",
        "inline",
        "struct S",
        "struct S { int m; }",
        "enum E { K }",
        "unsigned long",
        "_Atomic(int)",
        "_Alignas(4) int",
        "UNKNOWN",
    ]
    declarators = [
        "",
        "x",
        "*x",
        "(x)",
        "x[2]",
        "x()",
        "x(void)",
        "x(a, b)",
        "x(int a, ...)",
        "(*x)(int)",
        "x, y",
    ]
    tails = [
        ";",
        " = 1;",
        " { }",
        " { return 1; }",
        " int a; { }",
        "",
        " }",
    ]
    n = 0
    for s, d, t in itertools.product(specs, declarators, tails):
        src = (s + " " + d).strip() + t
        show_case(f"matrix {n}", src, "matrix.c")
        n += 1


# ----------------------------------------------------------------------
# 4. Token plumbing and scope helpers, driven directly
# ----------------------------------------------------------------------
def tokstr(tok):
    if tok is None:
        return "None"
    return f"{tok.type}:{tok.value!r}@{tok.lineno}:{tok.column}:{tok.filename!r}"


def guarded(label, fn):
    try:
        res = fn()
    except Exception as e:  # noqa: BLE001
        print(f"{label} -> EXC {type(e).__name__}: {e}")
    else:
        if hasattr(res, "type") and hasattr(res, "lineno"):
            res = tokstr(res)
        print(f"{label} -> {res!r}")


def run_plumbing():
    section("PLUMBING: _TokenStream")
    events = []
    lexer = CLexer(
        error_func=lambda msg, line, col: events.append(("err", msg, line, col)),
        on_lbrace_func=lambda: events.append("lbrace"),
        on_rbrace_func=lambda: events.append("rbrace"),
        type_lookup_func=lambda name: name == "T",
    )
    lexer.input("int T { x } ;\n# 5 \"f.c\"\n y", "ts.c")
    ts = _TokenStream(lexer)
    print("mark", ts.mark(), events)
    print("peek0", tokstr(ts.peek(0)), events)
    print("peek-1", tokstr(ts.peek(-1)), events)
    print("peek1", tokstr(ts.peek(1)), events)
    print("peek", tokstr(ts.peek()), events)
    print("peek3", tokstr(ts.peek(3)), events)
    print("peek2", tokstr(ts.peek(2)), events)
    print("mark", ts.mark(), len(ts._buffer), ts._index)
    m0 = ts.mark()
    print("next", tokstr(ts.next()), events)
    print("next", tokstr(ts.next()), events)
    m2 = ts.mark()
    print("mark", m2)
    print("next", tokstr(ts.next()), events)
    print("peek2", tokstr(ts.peek(2)), events)
    ts.reset(m0)
    print("after reset0 peek", tokstr(ts.peek()), ts.mark(), events)
    ts.reset(m2)
    print("after reset2 peek", tokstr(ts.peek()), ts.mark(), events)
    while True:
        t = ts.next()
        print("drain", tokstr(t), ts.mark(), len(ts._buffer), events)
        if t is None:
            break
    print("eof peek", tokstr(ts.peek()), ts.mark(), len(ts._buffer))
    print("eof peek2", tokstr(ts.peek(2)), ts.mark(), len(ts._buffer))
    print("eof next", tokstr(ts.next()), ts.mark(), len(ts._buffer))
    print("eof next", tokstr(ts.next()), ts.mark(), len(ts._buffer))
    ts.reset(0)
    print("rewound", [tokstr(ts.next()) for _ in range(4)], events)
    guarded("peek far beyond end", lambda: ts.peek(50))

    section("PLUMBING: CParser token helpers")
    p = CParser()
    p.clex.input("int a = ( 3 ) ; { T }", "helpers.c")
    p._tokens = _TokenStream(p.clex)
    p._scope_stack = [dict()]
    guarded("peek", lambda: p._peek())
    guarded("peek(2)", lambda: p._peek(2))
    guarded("peek_type", lambda: p._peek_type())
    guarded("peek_type(3)", lambda: p._peek_type(3))
    guarded("peek_type(0)", lambda: p._peek_type(0))
    guarded("accept ID", lambda: p._accept("ID"))
    guarded("accept INT", lambda: p._accept("INT"))
    guarded("mark", lambda: p._mark())
    mark = p._mark()
    guarded("expect ID", lambda: p._expect("ID"))
    guarded("expect SEMI (is EQUALS)", lambda: p._expect("SEMI"))
    guarded("mark after failed expect", lambda: p._mark())
    p._reset(mark)
    guarded("after reset peek", lambda: p._peek())
    guarded("advance", lambda: p._advance())
    guarded("advance", lambda: p._advance())
    guarded("starts_expression", lambda: p._starts_expression())
    guarded("starts_declaration", lambda: p._starts_declaration())
    guarded("starts_statement", lambda: p._starts_statement())
    guarded("starts_declarator", lambda: p._starts_declarator())
    guarded("tok_coord", lambda: str(p._tok_coord(p._peek())))
    for _ in range(4):
        guarded("advance", lambda: p._advance())
    guarded("scopes before {", lambda: len(p._scope_stack))
    guarded("peek {", lambda: p._peek())
    guarded("scopes after peek {", lambda: len(p._scope_stack))
    guarded("accept LBRACE", lambda: p._accept("LBRACE"))
    guarded("starts_statement", lambda: p._starts_statement())
    guarded("accept ID", lambda: p._accept("ID"))
    guarded("scopes before }", lambda: len(p._scope_stack))
    guarded("expect RBRACE", lambda: p._expect("RBRACE"))
    guarded("scopes after }", lambda: len(p._scope_stack))
    guarded("peek at end", lambda: p._peek())
    guarded("peek_type at end", lambda: p._peek_type())
    guarded("accept at end", lambda: p._accept("SEMI"))
    guarded("starts_statement at end", lambda: p._starts_statement())
    guarded("starts_expression at end", lambda: p._starts_expression())
    guarded("starts_declaration at end", lambda: p._starts_declaration())
    guarded("starts_declarator at end", lambda: p._starts_declarator())
    guarded("expect at end", lambda: p._expect("SEMI"))
    guarded("advance at end", lambda: p._advance())
    guarded("advance at end again", lambda: p._advance())

    section("PLUMBING: direct calls of statement / top-level entry points")

    def prime(text, typedefs=()):
        q = CParser()
        q.clex.input(text, "direct.c")
        q._tokens = _TokenStream(q.clex)
        q._scope_stack = [dict((t, True) for t in typedefs)]
        return q

    def dump(node):
        if isinstance(node, list):
            return "[" + " | ".join(dump(n) for n in node) + "]"
        if node is None:
            return "None"
        buf = io.StringIO()
        node.show(buf=buf, showcoord=True, attrnames=True, nodenames=True)
        return buf.getvalue().replace("\n", " / ")

    def direct(method, text, typedefs=()):
        q = prime(text, typedefs)
        label = f"{method} {text!r}"
        try:
            res = getattr(q, method)()
        except Exception as e:  # noqa: BLE001
            print(f"{label} -> EXC {type(e).__name__}: {e}")
            return
        print(f"{label} -> {dump(res)} ; next={tokstr(q._peek())}")

    stmt_inputs = [
        "",
        ";",
        "x;",
        "x: y;",
        "x: }",
        "x",
        "{ }",
        "{ a; }",
        "if (a) b; else c; rest",
        "switch (a) { case 1: b; }",
        "while (a) b;",
        "do a; while (b);",
        "for (;;) ;",
        "for (int i;;) ;",
        "goto l;",
        "break;",
        "continue;",
        "return;",
        "return 1;",
        "case 1: x;",
        "default: x;",
        "default: }",
        "case 1: }",
        "#pragma p\nx;",
        "#pragma p\n#pragma q\nx;",
        '_Pragma("p") x;',
        '_Static_assert(1, "m");',
        "int a;",
        "T a;",
        "else",
        ")",
    ]
    methods = [
        "_parse_statement",
        "_parse_pragmacomp_or_statement",
        "_parse_block_item",
        "_parse_block_item_list",
        "_parse_compound_statement",
        "_parse_labeled_statement",
        "_parse_selection_statement",
        "_parse_iteration_statement",
        "_parse_jump_statement",
        "_parse_expression_statement",
        "_parse_pppragma_directive",
        "_parse_pppragma_directive_list",
        "_parse_static_assert",
        "_parse_pp_directive",
        "_parse_external_declaration",
        "_parse_translation_unit",
        "_parse_translation_unit_or_empty",
        "_parse_declaration_list",
    ]
    for m in methods:
        for text in stmt_inputs:
            direct(m, text, typedefs=("T",))
    for text in ["#", "# define", "#pragma", "#pragma x", "_Pragma", "_Pragma(", '_Pragma("a"']:
        direct("_parse_pp_directive", text)
        direct("_parse_pppragma_directive", text)
        direct("_parse_pppragma_directive_list", text)

    section("PLUMBING: scope helpers")
    s = CParser()
    s.clex.input("", "scope.c")
    print("initial", s._scope_stack)
    guarded("pop at file scope", lambda: s._pop_scope())
    guarded("rbrace callback at file scope", lambda: s._lex_on_rbrace_func())
    guarded("add typedef T", lambda: s._add_typedef_name("T", s._coord(1, 2)))
    guarded("add typedef T again", lambda: s._add_typedef_name("T", s._coord(1, 3)))
    guarded("add identifier T", lambda: s._add_identifier("T", s._coord(2, 1)))
    guarded("add identifier T no coord", lambda: s._add_identifier("T", None))
    guarded("add identifier x", lambda: s._add_identifier("x", s._coord(3)))
    guarded("add identifier x again", lambda: s._add_identifier("x", None))
    guarded("add typedef x", lambda: s._add_typedef_name("x", s._coord(4, 4)))
    guarded("add typedef x no coord", lambda: s._add_typedef_name("x", None))
    print("scopes", s._scope_stack)
    guarded("is T", lambda: s._is_type_in_scope("T"))
    guarded("is x", lambda: s._is_type_in_scope("x"))
    guarded("is q", lambda: s._is_type_in_scope("q"))
    guarded("lookup T", lambda: s._lex_type_lookup_func("T"))
    guarded("push", lambda: s._push_scope())
    guarded("lbrace callback", lambda: s._lex_on_lbrace_func())
    print("scopes", s._scope_stack)
    guarded("shadow T as id", lambda: s._add_identifier("T", None))
    guarded("shadow x as typedef", lambda: s._add_typedef_name("x", None))
    guarded("is T", lambda: s._is_type_in_scope("T"))
    guarded("is x", lambda: s._is_type_in_scope("x"))
    print("scopes", s._scope_stack)
    guarded("pop", lambda: s._pop_scope())
    guarded("is T", lambda: s._is_type_in_scope("T"))
    guarded("is x", lambda: s._is_type_in_scope("x"))
    guarded("pop", lambda: s._pop_scope())
    guarded("is T", lambda: s._is_type_in_scope("T"))
    guarded("pop", lambda: s._pop_scope())
    print("scopes", s._scope_stack)
    guarded("coord", lambda: str(s._coord(7)))
    guarded("coord col", lambda: str(s._coord(7, 9)))
    guarded("parse_error coord", lambda: s._parse_error("boom", s._coord(1, 1)))
    guarded("parse_error str", lambda: s._parse_error("boom", "file.c"))
    guarded("parse_error None", lambda: s._parse_error("boom", None))
    guarded("lex_error_func", lambda: s._lex_error_func("bad char", 3, 4))

    section("PLUMBING: parser reuse (state reset between parse() calls)")
    shared = CParser()
    seq = [
        ("typedef int T; T a;", "r1.c"),
        ("T a;", "r2.c"),
        ("int f(void) { typedef int U; U b; ", "r3.c"),
        ("U b;", "r4.c"),
        ("int T; int f(void) { return T * 2; }", "r5.c"),
        ("int x; }", "r6.c"),
        ("int y;", ""),
        ("", "r8.c"),
        ("foo() { l: ; }", "r9.c"),
    ]
    for i, (src, fn) in enumerate(seq):
        print(f"--- reuse {i} {src!r} {fn!r}")
        sys.stdout.write(digest(src, fn, parser=shared))
        print("scope depth", len(shared._scope_stack), "index", shared._tokens.mark())
    guarded("parse with debug kw", lambda: type(shared.parse("int a;", debug=True)).__name__)
    guarded("parse positional", lambda: type(shared.parse("int a;", "p.c", False)).__name__)


def main():
    run_files()
    run_hand()
    run_generated()
    run_plumbing()


if __name__ == "__main__":
    main()
