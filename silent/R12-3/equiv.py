"""Behaviour digest for the c_ast / _ast_gen / ast_transforms / __init__ area.

Run as:  cd <repo root> && /venv/bin/python equiv.py > out.txt

Prints, for a few hundred deterministic inputs, either the AST dump (with
coordinates) plus the regenerated C, or the exception type and message.
Also exercises Node.show()/__repr__/children()/__iter__, NodeVisitor,
fix_switch_cases / fix_atomic_specifiers directly on hand-built trees,
parse_file / preprocess_file (with a fake preprocessor: the Python
interpreter itself) and the AST class generator (_ast_gen).
"""

import copy
import glob
import hashlib
import importlib.util
import io
import itertools
import os
import shutil
import sys

sys.path.insert(0, os.getcwd())

import pycparser
from pycparser import c_ast, c_generator, c_parser, parse_file, preprocess_file
from pycparser import ast_transforms

ROOT = os.getcwd()
TMP = "/tmp/R12_equiv_tmp"


def exc_str(e):
    return f"EXC {type(e).__name__}: {e}".replace(ROOT, "<ROOT>")


def dump_ast(ast):
    buf = io.StringIO()
    ast.show(buf=buf, showcoord=True)
    return buf.getvalue().replace(ROOT, "<ROOT>")


def walk(node):
    yield node
    for c in node:
        yield from walk(c)


def structural(ast):
    """children() / __iter__ agreement + class names, in preorder."""
    out = []
    for n in walk(ast):
        ch = n.children()
        it = list(n)
        assert [c for _, c in ch] == it or all(a is b for (_, a), b in zip(ch, it))
        out.append(f"{type(n).__name__}[{','.join(nm for nm, _ in ch)}]")
    return " ".join(out)


def digest_ast(ast, full=True):
    print(dump_ast(ast), end="")
    try:
        print("GEN<<<")
        print(c_generator.CGenerator().visit(ast))
        print(">>>")
    except Exception as e:  # noqa
        print(exc_str(e))
    if full:
        buf = io.StringIO()
        ast.show(buf=buf, attrnames=True, nodenames=True, showemptyattrs=False, offset=3)
        print(buf.getvalue().replace(ROOT, "<ROOT>"), end="")
        print("STRUCT", structural(ast))
        r = repr(ast)
        print("REPR", hashlib.sha1(r.encode()).hexdigest(), len(r))
        if len(r) < 3000:
            print(r)


def run_snippet(label, src, filename="<snip>", full=True):
    print(f"=== {label}")
    print(src)
    print("---")
    try:
        ast = c_parser.CParser().parse(src, filename)
    except Exception as e:  # noqa
        print(exc_str(e))
        return
    digest_ast(ast, full=full)


# ---------------------------------------------------------------- files
def section_files():
    files = sorted(
        glob.glob("tests/c_files/**/*.[ch]", recursive=True)
        + glob.glob("examples/c_files/**/*.[ch]", recursive=True)
    )
    for fn in files:
        print(f"=== FILE {fn}")
        try:
            ast = parse_file(fn)
        except Exception as e:  # noqa
            print(exc_str(e))
            continue
        digest_ast(ast, full=False)
        r = repr(ast)
        print("REPR", hashlib.sha1(r.encode()).hexdigest(), len(r))
        print("STRUCT", hashlib.sha1(structural(ast).encode()).hexdigest())


# ---------------------------------------------------------------- switch
SWITCH_BODIES = [
    "",
    "x = 1;",
    "case 1: x = 1;",
    "case 1: x = 1; y = 2; break;",
    "case 1: case 2: x = 1;",
    "case 1: case 2: case 3: x = 1; break;",
    "case 1: default: x = 1;",
    "default: case 1: x = 1;",
    "default: x = 1;",
    "default: default2: x = 1;",
    "x = 0; case 1: x = 1;",
    "x = 0; y = 0; case 1: case 2: x = 1; z = 3; default: break;",
    "case 1: x = 1; case 2: y = 2; case 3: case 4: default: z = 3; w = 4;",
    "case 1: { case 2: x = 1; } y = 2;",
    "case 1: switch (y) { case 2: case 3: a = 1; b = 2; } c = 3; default: d = 4;",
    "case 1: ; case 2: ;",
    "case 1: case 2: ; ; ;",
    "int k; case 1: k = 1; break; case 2: { int j; j = k; } break;",
    "case 1: if (x) case 2: y = 1; z = 2;",
    "case 1: L: case 2: x = 1;",
    "L: case 1: x = 1; y = 2;",
    "case 1: for (;;) { case 2: break; } default: ;",
    "case 'a': case 'b': case 'c': case 'd': case 'e': n++; break; default: n--; ",
    "case 1 ... 3: x = 1;",
    "case 1: #pragma foo\n x = 1;",
    "#pragma bar\n case 1: x = 1; \n#pragma baz\n y = 2;",
    "case 1: return 1; case 2: return 2; default: return 0;",
    "case A: case B: default: case C: f(); g(); break; case D: h();",
    "case 1: case 2",
    "case 1:",
    "case : x;",
    "default x;",
    "case 1: default: }",
]

SWITCH_STMTS = [
    "switch (x) x = 1;",
    "switch (x) case 1: x = 1;",
    "switch (x) case 1: case 2: x = 1;",
    "switch (x) default: x = 1;",
    "switch (x) ;",
    "switch (x) if (y) { case 1: z = 1; }",
    "switch (x) while (1) { case 1: case 2: z = 1; w = 2; }",
    "switch (x, y) { case 1: case 2: z = 1; w = 2; }",
    "switch (int k = 1) { case 1: ; }",
    "switch () { case 1: ; }",
    "switch (x) { case 1: x = 1; ",
]


def section_switch():
    for i, body in enumerate(SWITCH_BODIES):
        run_snippet(
            f"SWITCH body {i}", "int f(int x)\n{\n  switch (x) {\n    " + body + "\n  }\n  return 0;\n}\n"
        )
    for i, st in enumerate(SWITCH_STMTS):
        run_snippet(f"SWITCH stmt {i}", "void f(int x) {\n " + st + "\n}\n")
    # hand-built trees passed directly to fix_switch_cases
    C = c_ast
    def const(v):
        return C.Constant("int", str(v))
    def ident(n):
        return C.ID(n)
    trees = {
        "non-compound": lambda: C.Switch(ident("x"), C.Break()),
        "empty-compound-None": lambda: C.Switch(ident("x"), C.Compound(None, "co")),
        "empty-compound-list": lambda: C.Switch(ident("x"), C.Compound([])),
        "nested3": lambda: C.Switch(
            ident("x"),
            C.Compound(
                [
                    C.Break(),
                    C.Case(const(1), [C.Case(const(2), [C.Default([C.Break()])])]),
                    C.Continue(),
                    C.Default([C.Case(const(5), [C.Return(None)])]),
                    C.EmptyStatement(),
                ]
            ),
        ),
        "case-multi-stmts": lambda: C.Switch(
            ident("x"),
            C.Compound([C.Case(const(1), [C.Break(), C.Case(const(2), [C.Break()])])]),
        ),
        "case-first-nested-multi": lambda: C.Switch(
            ident("x"),
            C.Compound([C.Case(const(1), [C.Case(const(2), [C.Break()]), C.Continue()])]),
        ),
        "case-empty-stmts": lambda: C.Switch(ident("x"), C.Compound([C.Case(const(1), [])])),
        "not-a-switch": lambda: C.Compound([]),
        "stmt-none": lambda: C.Switch(ident("x"), None),
    }
    for name, mk in trees.items():
        print(f"=== SWITCH tree {name}")
        try:
            t = mk()
            r = ast_transforms.fix_switch_cases(t)
            print("same object:", r is t)
            print(repr(r))
            digest_ast(r)
        except Exception as e:  # noqa
            print(exc_str(e))


# ---------------------------------------------------------------- atomic
ATOMIC_DECLS = [
    "_Atomic(int) x;",
    "_Atomic(int) x, y;",
    "_Atomic(int) x, *y, z[3];",
    "_Atomic(int *) x;",
    "_Atomic(int) *x;",
    "_Atomic(_Atomic(int) *) x;",
    "_Atomic(_Atomic(_Atomic(int) *) *) x, y;",
    "_Atomic int x;",
    "int _Atomic x;",
    "_Atomic int * _Atomic p;",
    "const _Atomic(int) x;",
    "_Atomic(int) const x;",
    "const volatile _Atomic(int) x, y;",
    "_Atomic(const int) x;",
    "static _Atomic(int) x = 3;",
    "extern _Atomic(unsigned long) x[10];",
    "typedef _Atomic(int) atomic_int;",
    "typedef _Atomic(int) atomic_int, *atomic_intp;",
    "typedef _Atomic(_Atomic(int) *) aip;",
    "typedef _Atomic int atomic_int; atomic_int x; _Atomic(atomic_int *) y;",
    "typedef int T; _Atomic(T) x; _Atomic(T*) y, z;",
    "_Atomic(struct s { int a; }) x;",
    "_Atomic(struct s *) x, y;",
    "_Atomic(enum e { A, B }) x;",
    "_Atomic(union u) *x[2];",
    "struct s { _Atomic(int) a; _Atomic(int *) b, c; _Atomic int d : 3; };",
    "struct s { _Atomic(int) a : 3; };",
    "void f(_Atomic(int) a, _Atomic(int *) b);",
    "void f(_Atomic(int), _Atomic(char *));",
    "_Atomic(int) f(void);",
    "_Atomic(int) *f(_Atomic(int) x) { _Atomic(int) y = x; return &y; }",
    "_Atomic(int) (*fp)(int);",
    "_Atomic(int (*)(int)) fp;",
    "_Atomic(int[3]) a;",
    "_Atomic(int) a[2][3];",
    "int f() { for (_Atomic(int) i = 0; i < 3; i++) ; }",
    "int x = sizeof(_Atomic(int));",
    "int x = (_Atomic(int)) 3;",
    "int x = _Alignof(_Atomic(int));",
    "_Atomic(int) x = (_Atomic(int)){1};",
    "_Alignas(8) _Atomic(int) x;",
    "_Atomic(int);",
    "_Atomic(int) ;",
    "_Atomic() x;",
    "_Atomic(int x;",
    "_Atomic(3) x;",
    "_Atomic(int) _Atomic(int) x;",
    "_Atomic(int) int x;",
    "_Atomic x;",
    "_Atomic(int) x, ;",
    "void f() { _Atomic(int) x, y; _Atomic(_Atomic(int)*) p = &x; }",
    "_Thread_local _Atomic(int) x;",
    "_Atomic(long long) x, y = 1, *z = 0;",
    "_Atomic(volatile int *) restrict_p;",
    "typedef struct { _Atomic(int) cnt; } S; _Atomic(S) s;",
]


def section_atomic():
    for i, d in enumerate(ATOMIC_DECLS):
        run_snippet(f"ATOMIC {i}", d + "\n", filename="atomic.c")
    # hand-built
    C = c_ast
    def mk_decl(name, typ, quals=None):
        return C.Decl(name, quals or [], [], [], [], typ, None, None, "dc")
    def td(name, quals, inner, coord=None):
        return C.TypeDecl(name, quals, None, inner, coord)
    def idt(*names):
        return C.IdentifierType(list(names), "ic")
    def tn(quals, inner):
        return C.Typename(None, quals, None, inner, "tc")
    trees = {
        "plain": lambda: mk_decl("x", td("x", [], idt("int"), "t0")),
        "no-typedecl": lambda: mk_decl("x", idt("int")),
        "type-none": lambda: mk_decl("x", None),
        "atomic-qual-inner-only": lambda: mk_decl("x", td(None, ["_Atomic"], idt("int"))),
        "atomic-both": lambda: mk_decl("x", td("x", ["_Atomic"], idt("int")), ["_Atomic"]),
        "ptr-atomic": lambda: mk_decl("x", C.PtrDecl([], td(None, ["const", "_Atomic"], idt("int")))),
        "wrapped": lambda: mk_decl(
            "x", td("x", ["const"], tn(["_Atomic"], td(None, [], idt("int"), None)), "outer")
        ),
        "wrapped-coord": lambda: mk_decl(
            "x", td("x", ["const", "volatile"], tn(["_Atomic"], td(None, ["volatile"], idt("int"), "inner")), "outer")
        ),
        "wrapped-twice": lambda: mk_decl(
            "x",
            td(
                "x",
                [],
                tn(
                    ["_Atomic"],
                    C.PtrDecl(
                        ["restrict"],
                        td(None, [], tn(["_Atomic"], td(None, ["_Atomic"], idt("char"))), "mid"),
                        "pc",
                    ),
                ),
                "outer",
            ),
        ),
        "under-array": lambda: mk_decl(
            "a", C.ArrayDecl(td("a", [], tn(["_Atomic"], td(None, [], idt("int"))), "o"), None, [])
        ),
        "typename-not-atomic": lambda: mk_decl("x", td("x", [], tn(["const"], td(None, [], idt("int"))))),
        "typedef": lambda: C.Typedef(
            "T", [], ["typedef"], td("T", [], tn(["_Atomic"], td(None, [], idt("int"))), "o"), "tdc"
        ),
        "func": lambda: mk_decl(
            "f", C.FuncDecl(None, td("f", [], tn(["_Atomic"], td(None, [], idt("int"))), "o"))
        ),
    }
    for name, mk in trees.items():
        print(f"=== ATOMIC tree {name}")
        try:
            t = mk()
            before = copy.deepcopy(t)
            r = ast_transforms.fix_atomic_specifiers(t)
            print("same object:", r is t)
            print("BEFORE", repr(before))
            print("AFTER ", repr(r))
            print(dump_ast(r), end="")
            try:
                print("GEN", c_generator.CGenerator().visit(r))
            except Exception as e:  # noqa
                print(exc_str(e))
        except Exception as e:  # noqa
            print(exc_str(e))
    # sharing: the specifier of a multi-declarator declaration
    ast = c_parser.CParser().parse("_Atomic(int *) a, b, c[2];", "share.c")
    ids = [id(n) for d in ast.ext for n in walk(d)]
    print("=== ATOMIC sharing: all nodes distinct:", len(ids) == len(set(ids)))


# ---------------------------------------------------------------- general
EXPRS = [
    "a + b * c - d / e % f",
    "a << 2 >> 1 | b & c ^ d",
    "a && b || !c",
    "a ? b : c ? d : e",
    "a = b += c -= d *= e /= f %= g",
    "a <<= 1, b >>= 2, c &= 3, d |= 4, e ^= 5",
    "-a + +b - ~c + !d",
    "++a + b++ - --c - d--",
    "*p + &q - **pp",
    "sizeof a + sizeof(int) + sizeof(a)",
    "_Alignof(int)",
    "(int) a + (char *) b",
    "a[1][2] + b.c.d + e->f->g",
    "f() + g(a) + h(a, b, c)",
    "(a, b, c)",
    "(struct s){1, 2}.x",
    "(int[]){1, 2, 3}[0]",
    "1 + 2u + 3L + 4ull + 0x1f + 017 + 0b11",
    "1.0 + 2.f + 3e10 + 0x1p3",
    "'a' + L'b' + u'c' + U'd' + u8'e'",
    "\"s\" \"t\" + L\"w\"",
    "a == b != c < d > e <= f >= g",
    "__builtin_offsetof(struct s, a.b[1])",
    "a +",
    "(a",
    "a ? b",
    "a b",
    "f(a,)",
    "a[",
    "1 +* 2",
    "",
    ")",
]

DECLS = [
    "int x;",
    "int x, *y, **z, a[3], b[3][4], (*c)[3], *d[3];",
    "int f(int a, char *b, ...);",
    "int f(a, b) int a; char b; { return a + b; }",
    "int (*fp)(int, int (*)(void));",
    "int (*(*fpp)(int))(char);",
    "static const volatile unsigned long long int x = 1;",
    "extern inline _Noreturn void f(void);",
    "register int r; auto int a;",
    "typedef int T; T x; T *f(T);",
    "typedef int T; void f() { T T; T = 1; }",
    "typedef struct s { int a; struct s *next; } S, *SP;",
    "struct s { int a : 3; unsigned : 0; int b; };",
    "struct s { struct { int a; }; union { int b; float c; }; };",
    "struct s;",
    "struct { int a; } x = { .a = 1 };",
    "union u { int a; char b[4]; } u = { .b = { [0] = 1, [2] = 3 } };",
    "enum e { A, B = 2, C = B + 1, };",
    "enum e x;",
    "enum { X } y;",
    "int a[] = {1, 2, 3};",
    "int a[2][2] = {{1, 2}, {3, 4}};",
    "int a[static 3];",
    "void f(int a[static 3], int b[const], int c[*], int d[restrict static 2]);",
    "char *s = \"abc\";",
    "_Static_assert(1, \"msg\");",
    "_Static_assert(sizeof(int) == 4);",
    "_Alignas(16) int x; _Alignas(int) char c;",
    "_Thread_local int t;",
    "_Complex double z; _Bool b;",
    "__int128 big;",
    "int x = 1, y = x + 1;",
    "void (*signal(int, void (*)(int)))(int);",
    "const int * const * volatile p;",
    "int f(void) { return 0; } int g(void) { return f(); }",
    "#pragma once\nint x;",
    "_Pragma(\"foo\") int x;",
    ";",
    "",
    "int;",
    "int x",
    "int x y;",
    "int 3;",
    "struct { int a } x;",
    "enum { };",
    "foo x;",
    "int f( { }",
    "int a[;",
    "typedef int T; T T;",
    "void f(int, int a, );",
    "int x = ;",
    "int x = {1, 2;",
    "long long long x;",
    "@",
    "int x = 'ab",
    "char *s = \"abc;",
    "int x; }",
]

STMTS = [
    "if (a) b = 1;",
    "if (a) b = 1; else c = 2;",
    "if (a) if (b) c = 1; else d = 2;",
    "if (a) { } else { }",
    "while (a) a--;",
    "do { a--; } while (a);",
    "for (;;) ;",
    "for (i = 0; i < 10; i++) { continue; }",
    "for (int i = 0, j = 1; i < j; i++, j--) break;",
    "goto L; L: a = 1;",
    "L1: L2: ;",
    "return;",
    "return a + 1;",
    "{ int x; { int y; } }",
    "{ }",
    "a; b; c;",
    "int x; x = 1; int y = x;",
    "#pragma omp parallel\n for (;;) ;",
    "if (a) \n#pragma p\n b = 1;",
    "typedef int T; T t = (T) 1;",
    "struct s { int a; } v; v.a = 1;",
    "_Static_assert(1, \"x\");",
    "if (a b = 1;",
    "while () ;",
    "do a--; while (a)",
    "for (;;",
    "goto ;",
    "return a +;",
    "else a;",
    "break",
    "int x = 1",
    "{ ",
]


def section_general():
    for i, e in enumerate(EXPRS):
        run_snippet(f"EXPR {i}", "int v = " + e + ";\nvoid f(void) { x = " + e + "; }\n", full=(i % 3 == 0))
    for i, d in enumerate(DECLS):
        run_snippet(f"DECL {i}", d + "\n", filename="decl.c", full=(i % 3 == 0))
    for i, s in enumerate(STMTS):
        run_snippet(f"STMT {i}", "void f(void)\n{\n  " + s + "\n}\n", filename="stmt.c", full=(i % 3 == 0))
    # systematic: binary op x unary op combinations
    binops = ["+", "-", "*", "/", "%", "<<", ">>", "<", ">", "<=", ">=", "==", "!=", "&", "^", "|", "&&", "||"]
    unops = ["-", "+", "!", "~", "*", "&", "++", "--", "sizeof "]
    for i, (b1, b2) in enumerate(itertools.product(binops[::3], binops[1::4])):
        u = unops[i % len(unops)]
        run_snippet(f"SYS {i}", f"int f(void) {{ return a {b1} {u}b {b2} c[{u}d]; }}\n", full=False)


# ---------------------------------------------------------------- Node API
class CountingVisitor(c_ast.NodeVisitor):
    def __init__(self):
        self.log = []

    def visit_ID(self, node):
        self.log.append(("ID", node.name))

    def visit_Constant(self, node):
        self.log.append(("Const", node.type, node.value))
        return node.value

    def visit_FuncDef(self, node):
        self.log.append(("FuncDef", node.decl.name))
        self.generic_visit(node)

    def visit_Compound(self, node):
        self.log.append(("Compound", len(node.block_items or [])))
        c_ast.NodeVisitor.generic_visit(self, node)


def section_node_api():
    print("=== NODE classes")
    classes = sorted(
        (n, c) for n, c in vars(c_ast).items() if isinstance(c, type) and issubclass(c, c_ast.Node)
    )
    for name, cls in classes:
        print(name, cls.__slots__, cls.attr_names, cls.__mro__[1].__name__)
        if cls is c_ast.Node:
            continue
        nargs = len(cls.__slots__) - 2
        # all-None instance
        n = cls(*([None] * nargs))
        print("  none:", repr(n).replace("\n", "\\n"), n.children(), list(n), n.coord)
        # instance filled with leaves / lists of leaves
        vals = []
        for s in cls.__slots__[:-2]:
            if s in cls.attr_names:
                vals.append(f"<{s}>")
            else:
                vals.append(c_ast.ID(s, coord=f"c_{s}"))
        n = cls(*vals, coord="CO")
        print("  leaf:", repr(n).replace("\n", "\\n"))
        try:
            print("  children:", [(k, repr(v)) for k, v in n.children()])
        except Exception as e:  # noqa
            print("  children", exc_str(e))
        try:
            print("  iter:", [repr(v) for v in n])
        except Exception as e:  # noqa
            print("  iter", exc_str(e))
        for kw in (
            {},
            {"attrnames": True},
            {"nodenames": True, "showcoord": True},
            {"showemptyattrs": False, "attrnames": True, "offset": 2},
            {"nodenames": True, "_my_node_name": "root"},
        ):
            buf = io.StringIO()
            try:
                n.show(buf=buf, **kw)
                print("  show", kw, repr(buf.getvalue()))
            except Exception as e:  # noqa
                print("  show", kw, exc_str(e))
        # keyword construction + wrong arity
        try:
            kwn = cls(**{s: None for s in cls.__slots__[:-2]}, coord=1)
            print("  kw ok", kwn.coord)
        except Exception as e:  # noqa
            print("  kw", exc_str(e))
        try:
            cls(*([None] * (nargs + 2)))
            print("  arity+2 ok")
        except Exception as e:  # noqa
            print("  arity", exc_str(e))
        try:
            n.no_such_attr = 1
            print("  setattr ok")
        except Exception as e:  # noqa
            print("  setattr", exc_str(e))
    # sequence children with empty/None lists + empty attrs
    print("=== NODE misc")
    comp = c_ast.Compound(None)
    print(comp.children(), list(comp))
    comp = c_ast.Compound([c_ast.Break(), c_ast.Continue()])
    print(comp.children(), [type(x).__name__ for x in comp])
    d = c_ast.Decl("x", [], [], [], [], c_ast.TypeDecl("x", [], None, c_ast.IdentifierType(["int"])), None, None)
    for kw in ({}, {"showemptyattrs": False}, {"attrnames": True, "showemptyattrs": False}, {"attrnames": True}):
        buf = io.StringIO()
        d.show(buf=buf, **kw)
        print(kw, repr(buf.getvalue()))
    print(repr(d))
    print(repr(c_ast.FileAST([d, d])))
    print(c_ast._repr([1, [2, 3], "a\nb"]), c_ast._repr("x"), c_ast._repr([]))
    print(c_ast.Node().children(), c_ast.Node.attr_names, c_ast.Node.__slots__)
    try:
        print(repr(c_ast.Node()))
    except Exception as e:  # noqa
        print(exc_str(e))
    # show() to default stdout
    c_ast.Constant("int", "1").show()
    c_ast.Constant("int", "1").show(sys.stdout, 4, True, False, True, True, "nm")

    print("=== VISITOR")
    src = "int g = 3; int f(int a) { int b = a + 1; { b++; } return b * g; } int h(void) { return 0; }"
    ast = c_parser.CParser().parse(src)
    v = CountingVisitor()
    print(v._method_cache)
    print(v.visit(ast))
    print(v.log)
    print(sorted(v._method_cache), c_ast.NodeVisitor._method_cache)
    print(v.visit(c_ast.Constant("int", "7")))
    v2 = CountingVisitor()
    v2.visit(ast.ext[1])
    print(v2.log == v.log[1 : 1 + len(v2.log)], len(v2.log))
    plain = c_ast.NodeVisitor()
    print(plain.visit(ast), sorted(plain._method_cache))
    try:
        plain.visit(None)
    except Exception as e:  # noqa
        print(exc_str(e))
    try:
        plain.visit(c_ast.Node())
    except Exception as e:  # noqa
        print(exc_str(e))


# ---------------------------------------------------------------- __init__
class FakeParser:
    def parse(self, text, filename):
        return ("FAKE", text, filename)


def section_init():
    print("=== INIT")
    print(pycparser.__all__, pycparser.__version__, pycparser.CParser is c_parser.CParser)
    os.makedirs(TMP, exist_ok=True)
    cfile = os.path.join(TMP, "a.c")
    with open(cfile, "w", encoding="utf-8") as f:
        f.write("int x = 1;\nchar *s = \"h\u00e9\";\n")
    latin = os.path.join(TMP, "latin.c")
    with open(latin, "wb") as f:
        f.write("char *s = \"h\u00e9\";\n".encode("latin-1"))
    script = os.path.join(TMP, "fakecpp.py")
    with open(script, "w") as f:
        f.write(
            "import sys\n"
            "args = sys.argv[1:]\n"
            "if '--fail' in args: sys.exit(3)\n"
            "sys.stdout.write('# 1 \"pre.c\"\\n')\n"
            "sys.stdout.write('int argc = %d;\\n' % len(args))\n"
            "sys.stdout.write('char *args = \"%s\";\\r\\n' % '|'.join(a.split('/')[-1] for a in args))\n"
            "sys.stdout.write(open(args[-1]).read() if not args[-1].endswith('.h') else '')\n"
        )
    py = sys.executable

    def attempt(label, fn):
        print(f"--- {label}")
        try:
            r = fn()
        except Exception as e:  # noqa
            print(exc_str(e).replace(TMP, "<TMP>"))
            return
        if isinstance(r, c_ast.Node):
            print(dump_ast(r).replace(TMP, "<TMP>"), end="")
        else:
            print(repr(r).replace(TMP, "<TMP>"))

    attempt("parse_file plain", lambda: parse_file(cfile))
    attempt("parse_file encoding utf-8", lambda: parse_file(cfile, encoding="utf-8"))
    attempt("parse_file latin as utf-8", lambda: parse_file(latin, encoding="utf-8"))
    attempt("parse_file latin-1", lambda: parse_file(latin, encoding="latin-1"))
    attempt("parse_file missing", lambda: parse_file(os.path.join(TMP, "missing.c")))
    attempt("parse_file fake parser", lambda: parse_file(cfile, parser=FakeParser(), encoding="utf-8"))
    attempt("parse_file positional", lambda: parse_file(cfile, False, "cpp", "", FakeParser(), "utf-8"))
    attempt("parse_file syntax error", lambda: parse_file(script))
    attempt("preprocess str arg", lambda: preprocess_file(cfile, py, script))
    attempt("preprocess list args", lambda: preprocess_file(cfile, cpp_path=py, cpp_args=[script, "-DX", "-I."]))
    attempt("preprocess empty list", lambda: preprocess_file(script, py, []))
    attempt("preprocess empty str (runs file as script)", lambda: preprocess_file(script, py, ""))
    attempt("preprocess default args (runs file as script)", lambda: preprocess_file(script, py))
    attempt("preprocess tuple args", lambda: preprocess_file(cfile, py, (script,)))
    attempt("preprocess None args", lambda: preprocess_file(cfile, py, None))
    attempt("preprocess bad cpp", lambda: preprocess_file(cfile, os.path.join(TMP, "no-such-cpp"), "-E"))
    attempt("preprocess bad cpp default args", lambda: preprocess_file(cfile, os.path.join(TMP, "no-such-cpp")))
    attempt("preprocess failing cpp", lambda: preprocess_file(cfile, py, [script, "--fail"]))
    attempt("parse_file use_cpp", lambda: parse_file(cfile, use_cpp=True, cpp_path=py, cpp_args=script))
    attempt("parse_file use_cpp list", lambda: parse_file(cfile, True, py, [script, "-DY"]))
    attempt(
        "parse_file use_cpp fake parser",
        lambda: parse_file(cfile, use_cpp=True, cpp_path=py, cpp_args=[script], parser=FakeParser()),
    )
    attempt("parse_file use_cpp bad cpp", lambda: parse_file(cfile, use_cpp=True, cpp_path=os.path.join(TMP, "nocpp")))
    attempt("parse_file use_cpp failing", lambda: parse_file(cfile, use_cpp=True, cpp_path=py, cpp_args=[script, "--fail"]))
    attempt("parse_file use_cpp ignores encoding", lambda: parse_file(cfile, True, py, script, None, "no-such-encoding"))
    attempt("parse_file bad encoding", lambda: parse_file(cfile, encoding="no-such-encoding"))


# ---------------------------------------------------------------- _ast_gen
def probe_prologue(ns):
    """Behaviour (not text) of the hand-written prologue of a generated module."""
    Node, Visitor = ns["Node"], ns["NodeVisitor"]
    out = []

    class Leaf(Node):
        __slots__ = ("a", "b", "kid", "kids", "coord", "__weakref__")
        attr_names = ("a", "b")

        def __init__(self, a, b, kid=None, kids=None, coord=None):
            self.a, self.b, self.kid, self.kids, self.coord = a, b, kid, kids, coord

        def children(self):
            nodelist = []
            if self.kid is not None:
                nodelist.append(("kid", self.kid))
            for i, c in enumerate(self.kids or []):
                nodelist.append((f"kids[{i}]", c))
            return tuple(nodelist)

    class Bare(Node):
        __slots__ = ("coord", "__weakref__")

        def __init__(self, coord=None):
            self.coord = coord

        def children(self):
            return ()

    tree = Leaf(
        "x", [], Leaf(None, "", None, None, "c1"), [Bare("c2"), Leaf((), {}, Bare(), [Bare()], "c3"), Leaf(0, [1, ["n"]])], "c0"
    )
    for kw in itertools.product((False, True), repeat=4):
        kws = dict(zip(("attrnames", "showemptyattrs", "nodenames", "showcoord"), kw))
        for extra in ({}, {"offset": 3, "_my_node_name": "top"}):
            buf = io.StringIO()
            tree.show(buf=buf, **kws, **extra)
            out.append(repr(buf.getvalue()))
    out.append(repr(tree))
    out.append(repr(Bare()))
    out.append(ns["_repr"]([1, [2, [3]], "a\nb", tree.kid]))

    class V(Visitor):
        def __init__(self):
            self.seen = []

        def visit_Bare(self, node):
            self.seen.append(node.coord)
            return "bare"

    v = V()
    out.append(repr((v._method_cache, v.visit(tree), v.seen, sorted(v._method_cache), v.visit(Bare("z")))))
    out.append(repr((Visitor._method_cache, Node.attr_names, Node.__slots__, Node().children())))
    out.append(repr(sorted(k for k in ns if k[:2] != "__" and not (isinstance(ns[k], type) and issubclass(ns[k], Node) and ns[k] is not Node) and not k.startswith("_"))))
    return "\n".join(out)


def digest_generated(g, text):
    """Digest of a generated module: exact text of the per-node classes (the
    part driven by the cfg), header comment, and *behaviour* of the prologue."""
    node_part = "".join(nc.generate_source() + "\n\n" for nc in g.node_cfg)
    assert text.endswith(node_part)
    prologue = text[: len(text) - len(node_part)]
    print("header:", repr(prologue[: prologue.index("import sys")]))
    print("nodes:", hashlib.sha1(node_part.encode()).hexdigest(), len(node_part))
    ns = {}
    try:
        code = compile(text, "<generated>", "exec")
    except SyntaxError as e:
        # line number relative to the start of the cfg-driven part
        print("generated module does not compile:", e.msg, (e.lineno or 0) - prologue.count("\n"), repr(e.text))
        return ""
    exec(code, ns)
    probe = probe_prologue(ns)
    print("prologue behaviour:", hashlib.sha1(probe.encode()).hexdigest(), len(probe))
    return probe


def section_ast_gen():
    print("=== ASTGEN")
    path = os.path.join(ROOT, "pycparser", "_ast_gen.py")
    spec = importlib.util.spec_from_file_location("_r12_ast_gen", path)
    gen = importlib.util.module_from_spec(spec)
    spec.loader.exec_module(gen)
    os.makedirs(TMP, exist_ok=True)
    cfg = os.path.join(ROOT, "pycparser", "_c_ast.cfg")
    g = gen.ASTCodeGenerator(cfg)
    buf = io.StringIO()
    g.generate(buf)
    text = buf.getvalue().replace(ROOT, "<ROOT>")
    print("full cfg:", len(g.node_cfg))
    print(digest_generated(g, text))
    for nc in g.node_cfg:
        print(nc.name, nc.all_entries, nc.attr, nc.child, nc.seq_child)
    print(list(g.parse_cfgfile(cfg))[:5])

    cfgs = {
        "small": "# comment\n\nA: []\nB: [x]\nC: [x*]\nD: [x**]\nE: [a, b*, c**, d, e*, f**]\n   F : [ p , q* ]  \n",
        "nospace": "A:[a,b*]\nB:[]\n",
        "trailing": "A: [a, b*] # trailing\nB: [a,] \n",
        "stars3": "A: [a***, b*]\n",
        "bad-nocolon": "A [a]\n",
        "bad-nobracket": "A: a\n",
        "bad-order": "A[: a]\n",
        "bad-close-first": "A: ]a[\n",
        "bad-colon0": ": [a]\n",
        "bad-norbracket": "A: [a\n",
        "empty": "",
        "dup-brackets": "A: [a] [b]\n",
        "colon-later": "AB]: [x*]\n",
    }
    for name, content in cfgs.items():
        p = os.path.join(TMP, name + ".cfg")
        with open(p, "w") as f:
            f.write(content)
        print(f"--- cfg {name}")
        try:
            g = gen.ASTCodeGenerator(p)
            for nc in g.node_cfg:
                print(repr(nc.name), nc.all_entries, nc.attr, nc.child, nc.seq_child)
                print(nc.generate_source())
            buf = io.StringIO()
            g.generate(buf)
            digest_generated(g, buf.getvalue().replace(TMP, "<TMP>"))
        except Exception as e:  # noqa
            print(exc_str(e).replace(TMP, "<TMP>"))
    try:
        gen.ASTCodeGenerator(os.path.join(TMP, "does-not-exist.cfg"))
    except Exception as e:  # noqa
        print(exc_str(e).replace(TMP, "<TMP>"))
    # default cfg filename, relative to cwd
    cwd = os.getcwd()
    try:
        os.chdir(os.path.join(ROOT, "pycparser"))
        g = gen.ASTCodeGenerator()
        buf = io.StringIO()
        g.generate(buf)
        print("default:", g.cfg_filename)
        digest_generated(g, buf.getvalue())
    finally:
        os.chdir(cwd)
    # NodeCfg directly
    for contents in ([], ["a"], ["a*"], ["a**"], ["x", "y*", "z**", "w"]):
        nc = gen.NodeCfg("N", contents)
        print(contents, "->", repr(nc.generate_source()))
    # the checked-in c_ast.py must define the same classes as the generated code
    ns = {}
    exec(compile(text, "<generated c_ast>", "exec"), ns)
    for name, obj in sorted(ns.items()):
        if isinstance(obj, type) and name not in ("Node", "NodeVisitor") and hasattr(obj, "attr_names"):
            ref = getattr(c_ast, name)
            assert obj.__slots__ == ref.__slots__ and obj.attr_names == ref.attr_names, name
    print("generated classes consistent with c_ast.py")


def main():
    section_files()
    section_switch()
    section_atomic()
    section_general()
    section_node_api()
    section_init()
    section_ast_gen()
    shutil.rmtree(TMP, ignore_errors=True)
    print("=== DONE")


if __name__ == "__main__":
    main()
