#!/usr/bin/env python
"""Behavioural digest of utils/fake_libc_include.

Run from the repository root:

    cd <repo root> && /venv/bin/python equiv.py > out.txt

For every public header H under utils/fake_libc_include (and the four
historical internal headers), for every header included twice, and for 30
fixed pairs/triples of headers in both orders, a tiny translation unit made of
`#include <H>` lines is run through

    cpp -nostdinc -I utils/fake_libc_include -dD

and a digest is printed:

  * the sorted set of macros defined by the fake headers at the end of the
    translation unit, with their replacement text (#undef is honoured,
    compiler predefined macros are left out);
  * the sorted list of typedefs: the preprocessed text is parsed with
    pycparser and every Typedef is printed through CGenerator, together with
    a hash of its coordinate-free AST dump;
  * any other top level declaration, and any cpp / parse error.

Two refactorings are equivalent (for the purposes of the experiment) when the
output of this script is byte-identical before and after.

Include-guard macros are an implementation detail of the headers: a macro G is
treated as a guard when some header has the conventional shape
`#ifndef G` / `#define G` (empty body) / ... / `#endif`.  Guards are left out
of the macro digest, but a line is printed if a guard name clashes with a
non-guard macro, a typedef name, or the guard of another header.

Internal helper headers (basename `_fake_*.h` / `_<pkg>_fake_*.h`) that are not
part of the historical set are not enumerated as test subjects of their own:
they are only reachable through the headers that include them.
"""
import hashlib
import io
import os
import re
import subprocess
import sys
import tempfile

ROOT = os.getcwd()
sys.path.insert(0, ROOT)

from pycparser import c_ast, c_generator, c_parser  # noqa: E402

INC = os.path.join("utils", "fake_libc_include")

INTERNAL_RE = re.compile(r"^_(?:[A-Za-z0-9]+_)?fake_\w+\.h$")
KNOWN_INTERNAL = {
    "_fake_defines.h",
    "_fake_typedefs.h",
    "X11/_X11_fake_defines.h",
    "X11/_X11_fake_typedefs.h",
}

# 30 fixed combinations; each is run in the given and in the reversed order.
COMBOS = [
    ("stdio.h", "stdlib.h"),
    ("stdint.h", "inttypes.h"),
    ("inttypes.h", "stdatomic.h"),
    ("stdbool.h", "stdatomic.h"),
    ("stddef.h", "stdarg.h"),
    ("X11/Xlib.h", "X11/Intrinsic.h"),
    ("X11/Xlib.h", "stdio.h"),
    ("X11/Intrinsic.h", "zlib.h"),
    ("zlib.h", "stdio.h"),
    ("zlib.h", "sys/types.h"),
    ("_fake_typedefs.h", "_fake_defines.h"),
    ("_fake_typedefs.h", "stdint.h"),
    ("_fake_defines.h", "limits.h"),
    ("X11/_X11_fake_typedefs.h", "X11/_X11_fake_defines.h"),
    ("X11/_X11_fake_defines.h", "X11/Xlib.h"),
    ("xcb/xcb.h", "mir_toolkit/client_types.h"),
    ("sys/socket.h", "netinet/in.h"),
    ("linux/socket.h", "sys/un.h"),
    ("emmintrin.h", "immintrin.h"),
    ("pthread.h", "semaphore.h"),
    ("stdio.h", "stdlib.h", "string.h"),
    ("stdnoreturn.h", "threads.h", "stdalign.h"),
    ("assert.h", "stdatomic.h", "wchar.h"),
    ("inttypes.h", "stdint.h", "stdbool.h"),
    ("X11/Intrinsic.h", "X11/Xlib.h", "zlib.h"),
    ("zlib.h", "inttypes.h", "X11/Xlib.h"),
    ("dirent.h", "sys/stat.h", "unistd.h"),
    ("signal.h", "setjmp.h", "time.h"),
    ("smmintrin.h", "math.h", "complex.h"),
    ("mir_toolkit/client_types.h", "_fake_typedefs.h", "openssl/ssl.h"),
]

LINEMARKER_RE = re.compile(r'^#\s*(?:line\s+)?(\d+)\s+"((?:[^"\\]|\\.)*)"')
DEFINE_RE = re.compile(r"^#\s*define\s+([A-Za-z_]\w*)(\([^)]*\))?\s?(.*)$")
UNDEF_RE = re.compile(r"^#\s*undef\s+([A-Za-z_]\w*)")


def all_headers():
    found = []
    for dirpath, dirnames, filenames in os.walk(INC):
        dirnames.sort()
        for fn in filenames:
            if not fn.endswith(".h"):
                continue
            rel = os.path.relpath(os.path.join(dirpath, fn), INC).replace(os.sep, "/")
            found.append(rel)
    return sorted(found)


def subject_headers(headers):
    out = []
    for rel in headers:
        base = rel.rsplit("/", 1)[-1]
        if INTERNAL_RE.match(base) and rel not in KNOWN_INTERNAL:
            continue
        out.append(rel)
    return out


def strip_comments(text):
    return re.sub(r"/\*.*?\*/", " ", text, flags=re.S)


def find_guards(headers):
    """Map guard macro -> list of headers using it (conventional guards only)."""
    guards = {}
    for rel in headers:
        with open(os.path.join(INC, rel)) as f:
            text = strip_comments(f.read())
        directives = [ln.strip() for ln in text.splitlines() if ln.strip().startswith("#")]
        if len(directives) < 3:
            continue
        m1 = re.match(r"^#\s*ifndef\s+([A-Za-z_]\w*)\s*$", directives[0])
        if not m1:
            continue
        m2 = re.match(r"^#\s*define\s+([A-Za-z_]\w*)\s*$", directives[1])
        if not m2 or m2.group(1) != m1.group(1):
            continue
        if not re.match(r"^#\s*endif\b", directives[-1]):
            continue
        # the first non blank line of the file must be the #ifndef
        first = next((ln.strip() for ln in text.splitlines() if ln.strip()), "")
        if first != directives[0]:
            continue
        guards.setdefault(m1.group(1), []).append(rel)
    return guards


def run_cpp(includes, tmpdir):
    src = os.path.join(tmpdir, "tu.c")
    with open(src, "w") as f:
        for h in includes:
            f.write("#include <%s>\n" % h)
    proc = subprocess.run(
        ["cpp", "-nostdinc", "-I", INC, "-dD", src],
        stdout=subprocess.PIPE,
        stderr=subprocess.PIPE,
        universal_newlines=True,
    )
    return proc.returncode, proc.stdout, proc.stderr.replace(tmpdir, "<tmp>")


def split_output(text):
    """Return (macros, c_text): the final macro table of the fake headers and
    the preprocessed text with the #define/#undef lines blanked."""
    macros = {}
    cur_file = ""
    c_lines = []
    for line in text.splitlines():
        m = LINEMARKER_RE.match(line)
        if m:
            cur_file = m.group(2)
            c_lines.append(line)
            continue
        d = DEFINE_RE.match(line)
        if d:
            if not cur_file.startswith("<"):
                name, params, body = d.group(1), d.group(2) or "", d.group(3).strip()
                macros[name] = (params, body)
            c_lines.append("")
            continue
        u = UNDEF_RE.match(line)
        if u:
            if not cur_file.startswith("<"):
                macros.pop(u.group(1), None)
            c_lines.append("")
            continue
        c_lines.append(line)
    return macros, "\n".join(c_lines) + "\n"


def ast_hash(node):
    buf = io.StringIO()
    node.show(buf=buf, attrnames=True, nodenames=True, showcoord=False)
    return hashlib.sha256(buf.getvalue().encode()).hexdigest()[:12]


def digest(includes, guards, tmpdir):
    out = []
    rc, text, err = run_cpp(includes, tmpdir)
    if rc != 0 or err.strip():
        out.append("cpp-status: %d" % rc)
        for ln in err.strip().splitlines():
            out.append("cpp-stderr: " + ln)
    macros, c_text = split_output(text)

    typedef_rows = []
    other_rows = []
    parse_error = None
    try:
        ast = c_parser.CParser().parse(c_text, filename="<tu>")
        gen = c_generator.CGenerator()
        for ext in ast.ext:
            row = (getattr(ext, "name", None) or "", gen.visit(ext), ast_hash(ext))
            if isinstance(ext, c_ast.Typedef):
                typedef_rows.append(row)
            else:
                other_rows.append((type(ext).__name__,) + row)
    except Exception as e:  # noqa: BLE001 - the error text is the digest
        parse_error = "%s: %s" % (type(e).__name__, e)

    out.append("macros:")
    for name in sorted(macros):
        params, body = macros[name]
        if name in guards and params == "" and body == "":
            continue
        out.append("  %s%s => %s" % (name, params, body))
    for name in sorted(macros):
        if name in guards and macros[name] != ("", ""):
            out.append("guard-clash: %s is defined as a non-guard macro" % name)

    if parse_error is not None:
        out.append("parse-error: " + parse_error)
    else:
        out.append("typedefs:")
        for name, text_, h in sorted(typedef_rows):
            out.append("  %s :: %s  [%s]" % (name, " ".join(text_.split()), h))
            if name in guards:
                out.append("guard-clash: %s is also a typedef name" % name)
        names = [r[0] for r in typedef_rows]
        dups = sorted({n for n in names if names.count(n) > 1})
        out.append("duplicate-typedefs: %s" % (", ".join(dups) if dups else "none"))
        out.append("other-declarations:")
        for kind, name, text_, h in sorted(other_rows):
            out.append("  %s %s :: %s  [%s]" % (kind, name, " ".join(text_.split()), h))
    return "\n".join(out) + "\n"


def main():
    if not os.path.isdir(INC):
        sys.exit("run me from the repository root (no %s here)" % INC)
    headers = all_headers()
    subjects = subject_headers(headers)
    guards = find_guards(headers)

    for g in sorted(guards):
        if len(guards[g]) > 1:
            print("guard-clash: %s guards several headers: %s" % (g, ", ".join(guards[g])))

    cases = []
    for h in subjects:
        cases.append(("single %s" % h, [h]))
    for h in subjects:
        cases.append(("twice %s" % h, [h, h]))
    for i, combo in enumerate(COMBOS, 1):
        missing = [h for h in combo if h not in headers]
        if missing:
            print("combo %02d: missing header(s) %s" % (i, ", ".join(missing)))
            continue
        cases.append(("combo %02d fwd %s" % (i, " + ".join(combo)), list(combo)))
        cases.append(("combo %02d rev %s" % (i, " + ".join(reversed(combo))), list(reversed(combo))))

    print("subjects: %d headers, %d cases" % (len(subjects), len(cases)))
    seen = {}
    with tempfile.TemporaryDirectory(prefix="equiv_") as tmpdir:
        for label, includes in cases:
            body = digest(includes, guards, tmpdir)
            sha = hashlib.sha256(body.encode()).hexdigest()
            print("==== %s" % label)
            print("sha256: %s" % sha)
            if sha in seen:
                print("body: identical to [%s]" % seen[sha])
            else:
                seen[sha] = label
                sys.stdout.write(body)


if __name__ == "__main__":
    main()
