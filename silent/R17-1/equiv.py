"""Behaviour digest for pycparser (focus: c_lexer.py).

Run as:  cd <repo root> && /venv/bin/python equiv.py > out.txt
Prints, for every input, the token stream produced by CLexer (with error
callbacks recorded) and the result of parsing it with CParser (AST dump with
coordinates + generated C, or exception type and message).
"""
import glob
import io
import os
import sys

sys.path.insert(0, os.getcwd())

from pycparser import c_generator, c_parser  # noqa: E402
from pycparser.c_lexer import CLexer  # noqa: E402


def lex_digest(text, typedefs=("TT", "size_t", "mytype"), filename="in.c"):
    out = []
    events = []

    def on_error(msg, line, col):
        events.append(f"  ERR {msg!r} @{line}:{col}")

    def on_l():
        events.append("  {cb")

    def on_r():
        events.append("  }cb")

    lexer = CLexer(on_error, on_l, on_r, lambda name: name in typedefs)
    lexer.input(text, filename)
    count = 0
    try:
        while True:
            tok = lexer.token()
            out.extend(events)
            del events[:]
            if tok is None:
                break
            out.append(
                f"  TOK {tok.type} {tok.value!r} {tok.lineno}:{tok.column} "
                f"file={tok.filename!r} lexfile={lexer.filename!r}"
            )
            count += 1
            if count > 100000:
                out.append("  TOO MANY TOKENS")
                break
        # calling token() again at the end of the input must stay None
        out.append(f"  END again={lexer.token()!r} lexfile={lexer.filename!r}")
    except Exception as e:  # pragma: no cover - digest only
        out.extend(events)
        out.append(f"  LEXEXC {type(e).__name__}: {e}")
    return "\n".join(out)


def parse_digest(text, filename="in.c"):
    try:
        parser = c_parser.CParser()
        ast = parser.parse(text, filename)
    except Exception as e:
        return f"  EXC {type(e).__name__}: {e}"
    buf = io.StringIO()
    ast.show(buf=buf, showcoord=True)
    try:
        gen = c_generator.CGenerator().visit(ast)
    except Exception as e:
        gen = f"GENEXC {type(e).__name__}: {e}"
    return "  AST:\n" + buf.getvalue() + "  C:\n" + gen


def report(label, text, filename="in.c", do_lex=True):
    print("=" * 70)
    print(f"INPUT {label}: {text[:200]!r} (len {len(text)})")
    if do_lex:
        print(" LEX:")
        print(lex_digest(text, filename=filename))
    print(" PARSE:")
    print(parse_digest(text, filename))


# ---------------------------------------------------------------------------
# 1. files
# ---------------------------------------------------------------------------
files = sorted(
    glob.glob("tests/c_files/**/*.[ch]", recursive=True)
    + glob.glob("examples/c_files/**/*.[ch]", recursive=True)
)
for path in files:
    with open(path) as f:
        src = f.read()
    report("FILE " + path, src, filename=path)

# ---------------------------------------------------------------------------
# 2. hand written snippets
# ---------------------------------------------------------------------------
SNIPPETS = [
    # plain declarations / keywords
    "int a;",
    "int a, b = 3, *c;",
    "typedef int TT; TT x; TT f(TT TT);",
    "unsigned long long int x = 10ULL;",
    "static const volatile int * restrict p;",
    "_Bool b; _Complex double c; _Noreturn void f(void);",
    "_Thread_local int t; _Static_assert(1, \"msg\");",
    "_Atomic int a; _Atomic(int) b; _Alignas(8) int c; int d = _Alignof(int);",
    "__int128 big; inline int f(void) { return 0; }",
    "register int r; auto int q; extern int e;",
    "int _bool; int _BOOL; int _Bo; int _; int __; int _1;",
    "int Int; int INT; int iNT;",
    "int x = sizeof(int) + offsetof(struct s, m);",
    "int $a; int a$b; int $;",
    "int _Pragma; ",
    "_Pragma(\"omp parallel\") int x;",
    "void f(void){ _Pragma(\"foo\"); }",
    # integer constants
    "int a = 0;", "int a = 00;", "int a = 0777;", "int a = 08;", "int a = 0789;",
    "int a = 09u;", "int a = 123;", "int a = 123u;", "int a = 123U;", "int a = 123l;",
    "int a = 123L;", "int a = 123ul;", "int a = 123UL;", "int a = 123lu;",
    "int a = 123LU;", "int a = 123ll;", "int a = 123LL;", "int a = 123ull;",
    "int a = 123uLL;", "int a = 123llu;", "int a = 123LLU;", "int a = 123lL;",
    "int a = 123uu;", "int a = 123lul;", "int a = 0x1F;", "int a = 0X1fuL;",
    "int a = 0x;", "int a = 0xg;", "int a = 0b101;", "int a = 0B11u;", "int a = 0b2;",
    "int a = 0b;", "int a = 1a;", "int a = 1_000;", "int a = 0x1.8p3;",
    # floating constants
    "double d = 1.0;", "double d = .5;", "double d = 5.;", "double d = 1e10;",
    "double d = 1E-10f;", "double d = 1.5e+3L;", "double d = 1.e5;", "double d = .e5;",
    "double d = 1e;", "double d = 1e+;", "double d = 0x1p3;", "double d = 0x1.p-3f;",
    "double d = 0x.8P+2L;", "double d = 0x1.8;", "double d = 0xp1;", "double d = 1.2.3;",
    "double d = 1..2;", "double d = 1.f;", "double d = 1.0F;", "double d = 1.0l;",
    "double d = 1.0ff;", "double d = 08.5;", "double d = 09e1;",
    "int a = s.x + s . y + p->z; int e = a...b;",
    # char constants
    "char c = 'a';", "char c = '\\n';", "char c = '\\0';", "char c = '\\123';",
    "char c = '\\x41';", "char c = '\\xZ';", "char c = '\\x';", "char c = '\\8';",
    "char c = '\\99';", "char c = '\\'';", "char c = '\\\\';", "char c = '\\\"';",
    "char c = '\"';", "char c = L'a';", "char c = u8'a';", "char c = u'a';",
    "char c = U'a';", "char c = 'ab';", "char c = 'abcd';", "char c = 'abcde';",
    "char c = L'ab';", "char c = '';", "char c = 'a", "char c = 'a\n';",
    "char c = '\\%';", "char c = '\\%abc';", "char c = '\\(';", "char c = 'a\\%';",
    "char c = '\\.'; char d = '\\~'; char e = '\\-'; char f = '\\^';",
    "char c = ';", "char c = ''';", "char c = '\\",
    "char c = u8'ab'; char d = u'\\x41\\x42';",
    # string literals
    'char *s = "hello";', 'char *s = "";', 'char *s = "a" "b" "c";',
    'char *s = L"wide";', 'char *s = u8"utf8";', 'char *s = u"u16";',
    'char *s = U"u32";', 'char *s = L"a" L"b";', 'char *s = "a" L"b";',
    'char *s = "esc \\n \\t \\\\ \\" \\\' \\0 \\x41 \\123";',
    'char *s = "bad \\% escape";', 'char *s = "bad \\( x \\) y";',
    'char *s = "ok \\d \\w \\. \\8 \\9";', 'char *s = "unterminated;',
    'char *s = "newline\nin string";', 'char *s = "tab\tin string";',
    'char *s = "c:\\windows\\path\\file.h";', 'char *s = "\\";',
    'char *s = "\\"; int x;', 'char *s = u8"bad \\% x";', 'char *s = L"bad \\%";',
    'char *s = "a//b"; char *t = "/* x */";',
    # operators and punctuation
    "int f(int a, ...);",
    "void f(void){ a <<= 1; a >>= 2; a++; a--; p->x; a && b; a || b; }",
    "void f(void){ a << 1; a >> 2; a <= b; a >= b; a == b; a != b; }",
    "void f(void){ a *= 1; a /= 2; a %= 3; a += 4; a -= 5; a &= 6; a |= 7; a ^= 8; }",
    "void f(void){ a = b + c - d * e / f % g | h & i; a = ~b ^ !c; a = b < c > d; }",
    "void f(void){ a = b ? c : d; x[1] = y(2, 3); s.m = 1; }",
    "void f(void){ a+++b; a---b; a+++++b; }",
    "void f(void){ a<<<b; a>>>=b; a->>b; a&&&b; a|||b; a....b; a..b; }",
    "void f(void){ a=-b; a=+b; a=*b; a=&b; a=!b; a==-b; a!=!b; }",
    "void f(void){ x = a <::> b; }",
    "void f(void){{{}}{}}",
    "struct s { int a : 3; int : 0; };",
    "int a[] = { [0] = 1, [1 ... 3] = 2 }; struct p q = { .x = 1, .y.z = 2 };",
    "{ } } {",
    "}",
    "int a = (1, 2);",
    # comments unsupported, illegal characters
    "int a; /* comment */ int b;", "int a; // comment\nint b;", "int a = 1 /2; int b = 3 / 4;",
    "int a /= 2;", "int @a;", "int a = `1`;", "int a = 1 \\ 2;", "int \x01 a;",
    "int a\x00b;", "int caf\u00e9;", "int a;\r\nint b;", "int a;\rint b;",
    "int\va;\fint\tb;", "\v\f\t \n\n  int a;", "", " ", "\n", "\n\n\n", ";", ";;",
    # whitespace and coordinates
    "int a;\n  int b;\n\tint c;\n", "int\na\n;\n", "   int    a   =   1   ;   ",
    "int a;\n\n\n    char *s = \"x\";\n\tTT t;",
    # '#' handling: PPHASH
    "#", "# ", "#\n", "#define X 1\nint a;", "#include <stdio.h>\nint a;", "int a; # int b;",
    "#if 1\nint a;\n#endif", "##", "# #", "#lin 3", "#liner 3\nint a;", "#line", "#line\n",
    "#line\nint a;", "# \nint a;", "#\tline 5\nint a;", "#pragm\nint a;", "#pragmatic\nint a;",
    "#pragma_x\nint a;", "#pragma1\nint a;",
    # #line directives
    '#line 66 "kwas\\df.h"\nint a;', "# 9\nint a;", '#line 10 "include/me.h" 1 2 3\nint a;',
    '# 1 "file.h" 3\nint a;', '#line "file.h"\nint a;', "#line df\nint a;",
    "#line 5\nint a;\n#line 100\nint b;", '#line 5 "a.c"\nint a;\n# 7 "b.c"\nint b;\nint c;',
    "#line 007\nint a;", "#line 0\nint a;", "#line 12", '#line 12 "f.c"', '# 12 "f.c" 1',
    '#line 12 "f.c" x\nint a;', "#line 12 13\nint a;", '#line 12 "f.c" "g.c"\nint a;',
    "#line 12abc\nint a;", '#line 12"f.c"\nint a;', '#line 12 "f.c"3\nint a;',
    '#line 12 "unterminated\nint a;', '#line 12 "bad \\% esc"\nint a;', '#line 12 ""\nint a;',
    '#line 12 """"\nint a;', '#line 12 "a""b"\nint a;',
    '#line   12   "sp ace.c"   4   \nint a;', '#line\t12\t"tab.c"\t4\t\nint a;',
    "#line 12 \nint a;", "#  line 12\nint a;", "#line12\nint a;", "#line-12\nint a;",
    "#line -12\nint a;", "#line +12\nint a;", "#line 1.5\nint a;", "#line 0x10\nint a;",
    "#line \u0663\nint a;", "# \u0663\nint a;", "# 12\u0663\nint a;", "#line 12\u0663\nint a;",
    "#line line 5\nint a;", "#lineline 5\nint a;", "#line\n#line 4\nint a; int @;",
    "#line 99999999999999999999999\nint a; int @;", "int a;\n#line 20\n@", "int a; #line 20\nint b; @",
    '#line 3 "x.c"\n@ int a;\n@', '# 3 "x.c"\n\n\n  @', "#line 5 @\nint a; @", '#line "f" 5\n  @',
    '# 1 "a.c"\nint a;\n# 1 "b.h" 1\nint b;\n# 2 "a.c" 2\nint c = @;',
    "# 5\v\nint a;", "# 5 \f\nint a;", "#line 5\r\nint a;", '#line 5 "f.c"\r\nint a;',
    '# 10 "c:\\dir\\file.h"\nint a; @', '# 10 "..\\..\\x.h" 3 4\nint a; @', '#line 7 L"w.c"\nint a;',
    # #pragma directives
    "#pragma", "#pragma\n", "#pragma once", "#pragma once\n", "#pragma once\nint a;",
    "# pragma omp parallel private(th_id)\nint a;", "#\tpragma {pack: 2, smack: 3}\nint a;",
    "#pragma   spaced   out   \nint a;", "#pragma\t\ttabs\t\nint a;", "#pragma \nint a;",
    "#pragma    ", "#pragma  x", "int a;\n#pragma bar\nint b;\n#pragma baz\n",
    "void f(void){\n#pragma inside\n  int a;\n#pragma\n}",
    "struct s {\n#pragma pack(1)\nint a;\n};", "#pragma a\n#pragma b\n#pragma c\nint x; @",
    "#pragma \"str\" 'c' /* c */ // d\nint a;", "#pragma @ ` \\\nint a; @", "int a; #pragma late\nint b;",
    "#pragma one\n#line 50 \"p.c\"\n#pragma two\nint a; @", "#pragma x\r\nint a;",
    "#pragma\vfoo\nint a;", "#  pragma", "#  pragma   ", "#pragma(1)\nint a;", "#pragma-x\nint a;",
    "#pragma$\nint a;", "enum e {\n#pragma p\nA, B };", "int a =\n#pragma mid\n3;",
    "for(;;)\n#pragma loop\n;", "void f(void){ for(;;)\n#pragma loop\n{} if (1)\n#pragma t\nx; else\n#pragma e\ny; }",
    # typedef-name interaction, scopes
    "typedef int TT; void f(void){ TT TT; TT = 1; }", "typedef int T; T a; { T b; }",
    "typedef char mytype; mytype f(mytype a) { mytype b = a; return b; }",
    "typedef int T; void f(int T) { T = 1; } T g;", "typedef int T; struct s { T T; };",
    "size_t n; TT m;",
    # statements / misc full programs
    "int main(void) { int i; for (i = 0; i < 10; i++) { if (i % 2) continue; else break; } return 0; }",
    "void f(void){ switch (x) { case 1: break; default: goto end; } end: ; do { } while (0); }",
    "union u { int a; float b; }; enum e { A = 1, B, C = A + 2 };",
    "int (*fp)(int, char **); int arr[3][4]; void (*sig(int, void (*)(int)))(int);",
    "int f(a, b) int a; char b; { return a + b; }",
    "int x = (int) 3.5 + (TT) 2 + sizeof x + sizeof(TT);",
    "int a = 1 +;", "int = 3;", "int a b;", "int a; )", "int a = 'a' + \"s\"[0] + 0x10 + 010 + 0b11 + 1.5e3;",
]

for i, s in enumerate(SNIPPETS):
    report(f"SNIPPET {i}", s)

# ---------------------------------------------------------------------------
# 3. systematically generated snippets
# ---------------------------------------------------------------------------
KEYWORDS = (
    "auto break case char const continue default do double else enum extern float for goto "
    "if inline int long register offsetof restrict return short signed sizeof static struct "
    "switch typedef union unsigned void volatile while __int128 _Bool _Complex _Noreturn "
    "_Thread_local _Static_assert _Atomic _Alignof _Alignas _Pragma"
).split()
gen = []
for kw in KEYWORDS:
    gen.append(f"{kw} {kw.upper()} {kw.lower()} {kw.capitalize()} {kw}x x{kw} _{kw}")
OPS = (
    "... <<= >>= ++ -- -> && || << >> <= >= == != *= /= %= += -= &= |= ^= = + - * / % | & ~ ^ ! "
    "< > ? ( ) [ ] { } , . ; :"
).split()
for op in OPS:
    gen.append(f"a {op} b {op}{op} c{op}1 {op}.5 {op}")
for a in ("+", "-", "<", ">", "&", "|", "=", ".", "!", "*", "/", "%", "^"):
    for b in ("+", "-", "<", ">", "=", ".", "&", "|"):
        gen.append(f"x {a}{b}{a} y {a}{b}{b}= z")
for pre in ("", "L", "u8", "u", "U", "l", "u9", "uU", "LL", "x"):
    gen.append(f"{pre}'a' {pre}\"s\" {pre}'ab' {pre}'\\n' {pre}\"\\%\" {pre}'' {pre}")
for suf in ("", "u", "l", "ul", "lu", "ll", "ull", "llu", "uLL", "LLu", "lL", "Ll", "uu", "f", "F", "L", "z"):
    gen.append(f"1{suf} 0{suf} 07{suf} 0x1{suf} 0b1{suf} 1.0{suf} 1e1{suf} 0x1p1{suf} 08{suf}")
for ch in range(0, 256):
    c = chr(ch)
    if c.isalnum() or c in " \t\n":
        continue
    gen.append(f"a {c} b\n{c}{c} @")

for i, s in enumerate(gen):
    print("=" * 70)
    print(f"GEN {i}: {s!r}")
    print(lex_digest(s))

# directive generator: every prefix / small mutation of a few directive lines
DIRECTIVES = [
    '#line 42 "dir/file.h" 1 3',
    "# 17 \"x.c\"",
    "#pragma omp parallel for  ",
    "#  pragma\tpack ( push , 1 )",
]
k = 0
for d in DIRECTIVES:
    for cut in range(1, len(d) + 1):
        for tail in ("", "\nint a; @", " \n @"):
            s = "int z;\n" + d[:cut] + tail
            print("=" * 70)
            print(f"DIR {k}: {s!r}")
            print(lex_digest(s))
            k += 1
for d in DIRECTIVES:
    s = "int z;\n" + d + "\nint a; @\n" + d + "\nint b = @;"
    report(f"DIRPARSE {d!r}", s)
