# Behaviour digest for pycparser's AST layer (c_ast / _ast_gen / _c_ast.cfg),
# ast_transforms and the package front end (pycparser/__init__.py).
#
# Run from the repository root:
#     /venv/bin/python equiv.py > out.txt
# The output is deterministic; two trees with identical behaviour give
# byte-identical output.
import hashlib
import importlib.util
import io
import os
import shutil
import sys
import tempfile
import weakref

ROOT = os.getcwd()
sys.path.insert(0, ROOT)
# Same bytes whatever the locale is.
sys.stdout.reconfigure(encoding="utf-8", newline="\n")

import pycparser
from pycparser import c_ast, c_generator, c_parser, parse_file, preprocess_file
from pycparser import ast_transforms

OUT = sys.stdout


def emit(s=""):
    OUT.write(s + "\n")


def exc_str(e):
    return f"EXC {type(e).__module__}.{type(e).__name__}: {e}"


class CountingVisitor(c_ast.NodeVisitor):
    """Uses both specific visit_XXX methods and generic_visit."""

    def __init__(self):
        self.counts = {}
        self.ids = []
        self.consts = []

    def generic_visit(self, node):
        nm = type(node).__name__
        self.counts[nm] = self.counts.get(nm, 0) + 1
        c_ast.NodeVisitor.generic_visit(self, node)

    def visit_ID(self, node):
        self.ids.append(node.name)

    def visit_Constant(self, node):
        self.consts.append((node.type, node.value))
        return node.value

    def visit_Case(self, node):
        self.counts["Case!"] = self.counts.get("Case!", 0) + 1
        self.generic_visit(node)


def walk_paths(node, path="", out=None):
    """children() names and __iter__ order, recursively."""
    if out is None:
        out = []
    kids = node.children()
    it = list(node)
    assert [c for _, c in kids] == it or all(a is b for (_, a), b in zip(kids, it))
    out.append(
        f"{path or '.'}:{type(node).__name__}"
        f"[{','.join(n for n, _ in kids)}]#{len(it)}@{node.coord}"
    )
    for name, child in kids:
        walk_paths(child, path + "/" + name, out)
    return out


def show_str(node, **kw):
    buf = io.StringIO()
    node.show(buf=buf, **kw)
    return buf.getvalue()


def digest_ast(ast, full=True):
    emit("-- show(showcoord=True)")
    OUT.write(show_str(ast, showcoord=True))
    if full:
        emit("-- show(attrnames, nodenames, offset=3)")
        OUT.write(show_str(ast, attrnames=True, nodenames=True, offset=3))
        emit("-- show(showemptyattrs=False, attrnames)")
        OUT.write(show_str(ast, attrnames=True, showemptyattrs=False))
        emit("-- show(nodenames, showemptyattrs=False, showcoord)")
        OUT.write(show_str(ast, nodenames=True, showemptyattrs=False, showcoord=True))
        emit("-- repr")
        emit(repr(ast))
        emit("-- paths")
        for line in walk_paths(ast):
            emit(line)
    else:
        emit("-- repr sha256")
        emit(hashlib.sha256(repr(ast).encode()).hexdigest())
        emit("-- paths sha256")
        emit(hashlib.sha256("\n".join(walk_paths(ast)).encode()).hexdigest())
        emit("-- show(attrnames,nodenames,noempty,coord) sha256")
        emit(
            hashlib.sha256(
                show_str(
                    ast,
                    attrnames=True,
                    nodenames=True,
                    showemptyattrs=False,
                    showcoord=True,
                ).encode()
            ).hexdigest()
        )
    v = CountingVisitor()
    r = v.visit(ast)
    emit("-- visitor")
    emit(f"ret={r!r} counts={sorted(v.counts.items())}")
    emit(f"ids={v.ids}")
    emit(f"consts={v.consts}")
    emit(f"cache={sorted(v._method_cache)}")
    emit("-- generated C")
    try:
        emit(c_generator.CGenerator().visit(ast))
    except Exception as e:  # noqa: BLE001
        emit(exc_str(e))
    emit("-- generated C (reduce_parentheses)")
    try:
        emit(c_generator.CGenerator(reduce_parentheses=True).visit(ast))
    except Exception as e:  # noqa: BLE001
        emit(exc_str(e))


def run_snippet(idx, text, filename="", full=True):
    emit("=" * 70)
    emit(f"SNIPPET {idx}: {text!r}")
    try:
        parser = c_parser.CParser()
        ast = parser.parse(text, filename)
    except Exception as e:  # noqa: BLE001
        emit(exc_str(e))
        return
    digest_ast(ast, full=full)


# ----------------------------------------------------------------------
# 1. Files
# ----------------------------------------------------------------------
def section_files():
    emit("#" * 70)
    emit("# FILES")
    files = []
    for top in ("tests/c_files", "examples/c_files"):
        for dirpath, dirnames, filenames in os.walk(top):
            dirnames.sort()
            for fn in sorted(filenames):
                files.append(os.path.join(dirpath, fn).replace(os.sep, "/"))
    for path in files:
        emit("=" * 70)
        emit(f"FILE {path}")
        try:
            ast = parse_file(path)
        except Exception as e:  # noqa: BLE001
            emit(exc_str(e))
            continue
        big = os.path.getsize(path) > 20000
        digest_ast(ast, full=not big)


# ----------------------------------------------------------------------
# 2. Snippets
# ----------------------------------------------------------------------
SWITCH_BODIES = [
    "switch (x) { }",
    "switch (x) ;",
    "switch (x) x++;",
    "switch (x) case 1: x = 2;",
    "switch (x) default: ;",
    "switch (x) { case 1: break; }",
    "switch (x) { case 1: x = 1; y = 2; return; case 2: case 3: return; default: break; }",
    "switch (x) { x = 9; y = 8; case 1: x = 1; }",
    "switch (x) { int k; k = 1; case 1: x = k; default: ; }",
    "switch (x) { default: case 1: case 2: case 3: case 4: x = 1; x = 2; }",
    "switch (x) { case 1: default: case 2: break; case 3: ; }",
    "switch (x) { case 1: { case 2: x = 1; } x = 3; }",
    "switch (x) { case 1: switch (y) { case 2: case 3: y = 1; y = 2; default: ; } x = 4; case 5: ; }",
    "switch (x) { case 1: if (y) case 2: x = 1; x = 2; }",
    "switch (x) { case 1: lbl: case 2: x = 1; x = 2; }",
    "switch (x) { lbl: case 2: x = 1; x = 2; }",
    "switch (x) { case 1: while (y) { case 2: y--; } case 3: ; }",
    "switch (x) { case 'a': case 'b': x = 'c'; break; case 1 + 2: x = 0; }",
    "switch (x) { case 1 ... 3: x = 0; break; }",
    "switch (x + y * 2) { case A: case B: f(); g(); break; default: h(); }",
    "switch (x) { default: x = 1; default: x = 2; }",
    "switch (x) { case 1: ; ; ; case 2: ; }",
    "switch (x) { #pragma foo\n case 1: x = 1; \n#pragma bar\n x = 2; }",
    "switch (x) { case 1: case 2: default: }",
    "switch (x) { case 1 x = 2; }",
    "switch (x) { case : x = 2; }",
    "switch x { case 1: ; }",
    "switch (x) { default x = 2; }",
    "switch () { }",
    "switch (x) { case 1: do case 2: x--; while (x); x = 7; }",
    "switch (x) { case 1: for (;;) case 2: x--; x = 7; case 8: return; }",
    "switch (int y = 3) { case 1: ; }",
    "switch (x) { case 1: { } case 2: { x = 1; } default: { { } } }",
    "switch (x) { case 1: goto l; l: x = 2; case 2: continue; }",
    "switch (x) { struct s { int a; } v; case 1: v.a = 1; }",
    "switch (x) { case sizeof(int): x = 1; case (int) 3: x = 2; case -1: x = 3; }",
]

ATOMIC_DECLS = [
    "_Atomic(int) x;",
    "_Atomic int x;",
    "_Atomic(int) x, y;",
    "_Atomic(int) *x, y, z[3];",
    "_Atomic(int *) x;",
    "_Atomic(int) *x;",
    "_Atomic(int *) *x;",
    "_Atomic(_Atomic(int) *) x;",
    "_Atomic(_Atomic(int *) *) x, *y;",
    "const _Atomic(int) x;",
    "_Atomic(int) const x;",
    "const volatile _Atomic(int) x, y;",
    "_Atomic(const int) x;",
    "static _Atomic(unsigned long) counter = 0;",
    "extern _Atomic(int) x[10];",
    "_Atomic(int) x[2][3];",
    "_Atomic(int) f(void);",
    "_Atomic(int) (*fp)(int);",
    "_Atomic(int) *f(_Atomic(int) a, _Atomic(char *) b);",
    "int f(_Atomic(int) a, _Atomic int *b, int * _Atomic c);",
    "int f(_Atomic(int));",
    "int f(_Atomic(int) *);",
    "int f(_Atomic(int) [3]);",
    "typedef _Atomic(int) atomic_int;",
    "typedef _Atomic int atomic_int;",
    "typedef _Atomic(int) atomic_int, *atomic_int_p;",
    "typedef _Atomic(_Atomic(int *) *) aip;",
    "typedef int T; _Atomic(T) x;",
    "typedef int T; _Atomic(T *) x, y;",
    "typedef int T; typedef _Atomic(T) AT; AT x; _Atomic(AT) y;",
    "struct s { _Atomic(int) a; _Atomic int b; _Atomic(int *) c, *d; };",
    "struct s { _Atomic(int) a : 3; };",
    "union u { _Atomic(int) a; _Atomic(struct s *) b; };",
    "_Atomic(struct s) x;",
    "_Atomic(struct s { int a; }) x, y;",
    "_Atomic(enum e { A, B }) x;",
    "_Atomic(union u *) x;",
    "int * _Atomic x;",
    "int * _Atomic * const _Atomic y;",
    "_Atomic int * _Atomic x;",
    "_Atomic(int) * _Atomic x;",
    "void f(void) { _Atomic(int) a = 1, b; _Atomic(int *) p = &a; }",
    "void f(void) { for (_Atomic(int) i = 0; i < 3; i++) ; }",
    "void f(void) { x = (_Atomic(int)) y; z = sizeof(_Atomic(int)); }",
    "void f(void) { x = (_Atomic(int) *) y; w = _Alignof(_Atomic(long)); }",
    "void f(void) { x = (_Atomic(int)) { 1 }; }",
    "_Atomic(int) f(a, b) _Atomic(int) a; _Atomic(char *) b; { return a; }",
    "_Atomic(int (*)(void)) x;",
    "_Atomic(int [3]) x;",
    "_Atomic(unsigned long long int) x;",
    "_Atomic(_Atomic(_Atomic(int))) x;",
    "_Atomic(_Atomic(int)) x, *y;",
    "_Atomic(const volatile int *) restrict_p;",
    "_Alignas(8) _Atomic(int) x;",
    "_Atomic(int) _Alignas(16) x;",
    "_Thread_local _Atomic(int) x;",
    "_Atomic(int);",
    "_Atomic(int) ;",
    "_Atomic() x;",
    "_Atomic(int x;",
    "_Atomic(x) y;",
    "_Atomic(int) int x;",
    "_Atomic x;",
    "_Atomic(void) *p;",
    "inline _Atomic(int) f(void) { return 0; }",
    "_Noreturn _Atomic(int) f(void);",
    "_Static_assert(sizeof(_Atomic(int)) == 4, \"sz\");",
    "struct { _Atomic(int) x; } v = { .x = 1 };",
    "_Atomic(int) a = 1, b = 2, *c = 0;",
    "auto _Atomic(int) x;",
    "register _Atomic(float) x;",
    "_Atomic(float _Complex) x;",
    "_Atomic(__int128) x;",
    "_Atomic(_Bool) flag, *pflag, aflag[2];",
    "typedef struct node { _Atomic(struct node *) next; } node_t;",
]

GENERAL = [
    "",
    ";",
    "int x;",
    "int x = 1, *y = &x, z[3] = {1, 2, 3};",
    "unsigned long long int x;",
    "const char * const * volatile p;",
    "int a[const 3];",
    "void f(int a[static 3], int b[restrict], int c[*]);",
    "int (*f(int))(double);",
    "int (*arr[3])(void);",
    "typedef int (*fp)(int, ...);",
    "typedef int T; T x; T f(T T);",
    "typedef int T; void f(void) { T T; T = 1; }",
    "struct s; struct s { int a; struct s *next; };",
    "struct s { int a : 3; unsigned : 0; int b : 5; };",
    "struct { int a; union { int b; float c; }; } v;",
    "struct s { };",
    "union u { int a; char b[4]; } v = { .b = { 1, 2, [3] = 4 } };",
    "enum e { A, B = 2, C = B + 1, };",
    "enum e; enum { X } v;",
    "enum e { };",
    "int x = sizeof(int), y = sizeof x, z = _Alignof(int);",
    "_Alignas(int) char c; _Alignas(16) int v;",
    "_Static_assert(1, \"msg\"); _Static_assert(1);",
    "_Noreturn void die(void); inline static int f(void) { return 0; }",
    "_Thread_local int tl; extern _Thread_local int etl;",
    "int f(void) { return 1 + 2 * 3 - 4 / 5 % 6 << 7 >> 8 & 9 | 10 ^ 11; }",
    "int f(void) { return a && b || !c ? d : e, f; }",
    "int f(void) { a = b += c -= d *= e /= f %= g <<= h >>= i &= j |= k ^= l; }",
    "void f(void) { ++a; --a; a++; a--; -a; +a; ~a; !a; *a; &a; }",
    "void f(void) { a[1][2] = b.c->d.e[3]; f(1, 2)(3); g(); }",
    "void f(void) { x = (int) y; x = (struct s *) y; x = (int (*)(void)) y; }",
    "void f(void) { x = (struct s) { 1, .a = 2, .b.c[1] = 3 }; }",
    "void f(void) { if (a) b; if (a) b; else c; if (a) { } else if (b) { } else { } }",
    "void f(void) { while (a) b; do c; while (d); for (;;) ; for (i = 0; i < n; i++) { } }",
    "void f(void) { for (int i = 0, j = 1; i < j; i++, j--) continue; }",
    "void f(void) { goto l; l: ; m: n: x = 1; break; continue; return; return x; }",
    "void f(void) { { { } } ; ; }",
    "void f(void) { int a; { int a; a = 1; } a = 2; }",
    "void f(void) { char *s = \"a\" \"b\" \"c\"; wchar_t *w = L\"x\" L\"y\"; }",
    "void f(void) { x = 'a'; y = L'b'; z = u8\"s\"; w = u'c'; v = U\"d\"; }",
    "void f(void) { x = 1; x = 1u; x = 1ul; x = 1ll; x = 1ull; x = 0x1f; x = 017; x = 0b11; }",
    "void f(void) { x = 1.0; x = 1.0f; x = 1e10; x = 1.e-3L; x = 0x1.8p3; x = .5; }",
    "void f(void) { x = sizeof(int[3]); y = sizeof(struct s); z = sizeof *p; }",
    "void f(void) { x = __func__; }" if False else "void f(void) { x = a ? b : c ? d : e; }",
    "int main(int argc, char **argv) { return argc > 1 ? argv[1][0] : 0; }",
    "int f(a, b) int a; char b; { return a + b; }",
    "int f(a, b, c) int a, c; char *b; { return 0; }",
    "f(void) { return 0; }",
    "int f(int, char *, ...);",
    "int f();",
    "int f(void), g(int), *h(char);",
    "#pragma once\nint x;\n#pragma pack(push, 1)\nstruct s { int a; };\n#pragma pack(pop)",
    "void f(void) {\n#pragma omp parallel\n for (;;) ;\n}",
    "void f(void) { _Pragma(\"foo\") x = 1; }",
    "_Pragma(\"top\") int x;",
    "# 10 \"foo.c\"\nint x;\n# 20 \"bar.h\" 1\nint y;\n#line 30\nint z;",
    "int x;\n\n\n   int   y\n ;\n\tint\tz;",
    "int x; // comment" if False else "int x; int x; extern int x;",
    "__int128 x; unsigned __int128 y;",
    "_Bool b; _Complex float cf; float _Complex fc;",
    "long double ld; long long ll; short int si; signed char sc;",
    "volatile int * restrict p;",
    "int x = {1};",
    "int a[] = {1, 2, [5] = 3, [1 ... 2] = 4};" ,
    "int a[2][2] = {{1, 2}, {3, 4}};",
    "struct s v = {.a = 1, .b = {2, 3}, .c.d = 4, .e[0].f = 5};",
    "char s[] = \"hello\";",
    "typedef struct { int a; } S; S s = { 1 }; S *f(S *p) { return p; }",
    "typedef int A[3]; A a; typedef A *PA; PA pa;",
    "typedef void (*handler)(int); handler signal(int, handler);",
    "typedef int T; struct s { T T; };",
    "typedef int T; void f(int T) { T++; }",
    "typedef int T; void f(void) { sizeof(T); (T) 1; T x; }",
    "typedef char T; int f(void) { int T = 1; { typedef int T; T y; } return T; }",
    "void f(void) { int x = _Generic(y, int: 1, default: 2); }",
    "int x = __builtin_offsetof(struct s, a);" if False else "int x = offsetof(struct s, a.b[1]);",
    "void f(void) { x = offsetof(struct s, m); }",
    "void f(void) { asm(\"nop\"); }",
    "int f(void) { return ({ 1; }); }",
    "int x = (1, 2);",
    "void f(void) { (void) 0; (void) f; ((void (*)(void)) 0)(); }",
    "void f(void) { a = b = c; a = (b, c); f((a, b), c); }",
    "void f(void) { x = -1 - -1; x = - -1; x = + +1; x = a-- - --b; x = a++ + ++b; }",
    "void f(void) { x = *p++; x = (*p)++; x = *++p; x = &*p; x = **pp; }",
    "void f(void) { x = !a == b; x = ~a & b; x = (a, b) ? c : d; x = a ? (b, c) : d; }",
    "void f(void) { x = (a + b) * c; x = a + (b * c); x = (a * b) + c; x = a - (b - c); x = (a - b) - c; }",
    "void f(void) { x = a << (b + c); x = (a << b) + c; x = (a < b) == (c > d); x = a & (b == c); }",
    "void f(void) { x = sizeof(a) + sizeof (int) * 2; x = sizeof a + 1; x = sizeof(a + 1); }",
    "void f(void) { if (a) if (b) c; else d; }",
    "void f(void) { if (a) { if (b) c; } else d; }",
    "void f(void) { while (a) if (b) break; else continue; }",
    "void f(void) { l1: l2: l3: ; goto l2; }",
    "void f(void) { int x; int y = x; { int z = y; } struct t { int a; } w; }",
    "void f(void) { static int x; extern int y; register int z; auto int w; typedef int q; }",
    "void f(void) { struct s *p = (struct s *) malloc(sizeof(struct s)); p->a = (*p).b; }",
    "void f(void) { int a[n]; int b[n][m]; int (*c)[n] = &a; }",
    "void f(int n, int a[n][n]) { }",
    "void f(int n, int a[static const n]) { }",
    "int (*(*f)(void))[3];",
    "int *(*(*f[5])(int))(char);",
    "char *(*(**foo[][8])())[];",
    "void (*signal(int sig, void (*func)(int)))(int);",
    "const int * const f(const int * const p);",
    "struct s f(struct s a, union u b, enum e c);",
    "struct s { int a; } f(void) { struct s r; return r; }",
    "enum e { A } f(void) { return A; }",
    "struct s { struct t { int a; } b; enum { X, Y } c; union { int d; }; };",
    "struct s { int a, b, *c, d[2], (*e)(void); };",
    "struct s { int : 3; };",
    "struct s { _Static_assert(1, \"x\"); int a; };",
    "struct s { ; int a; ; };",
    "struct s { int a; } __attribute__((packed));" if False else "struct s { const int a; volatile char * const b; };",
    "int x = 'ab'; int y = '\\n'; int z = '\\x41'; int w = '\\101';",
    "char *s = \"a\\\"b\\\\c\\n\";",
    "int x = 0xFFFFFFFFu; long y = 123456789012L; float z = 1.5e+3f;",
    "long long x = 0xdeadbeefULL; unsigned y = 0777u; int z = 0;",
    "void f(void) { x = 1 ? 2 : 3 ? 4 : 5; y = (1 ? 2 : 3) ? 4 : 5; }",
    "void f(void) { x = a ?: b; }",
    "void f(void) { x = a[b[c[d]]]; y = f(g(h(1)), i(2, 3)); }",
    "void f(void) { x.y.z = 1; x->y->z = 2; (*x).y = 3; x[0].y[1]->z = 4; }",
    "void f(void) { x = (char) (int) (long) y; x = (unsigned char *) &y; }",
    "void f(void) { x = (int) { 1 }; y = &(struct s) { .a = 1 }; z = (int []) { 1, 2 }; }",
    "void f(void) { return (1); }",
    "void f(void) { do { } while (0); do ; while (1); }",
    "void f(void) { for (x = 0;;) ; for (; x;) ; for (;; x++) ; for (int i;;) ; }",
    "void f(void) { for (struct s { int a; } v;;) ; }",
    "int x[3] = { [0] = 1, [2] = 3 }, y = { 0 };",
    "int x = { { 1 } };",
    "int x[] = { };",
    "int x[] = { 1, };",
    "wchar_t w = L'x'; char16_t c = u'y'; char32_t d = U'z';" if False else "int w = L'x'; int c = u'y'; int d = U'z'; int e = u8'a';",
    # Errors
    "int",
    "int x",
    "int x = ;",
    "int 3x;",
    "x y z;",
    "int f( { }",
    "int f(void) { return }",
    "int f(void) { if }",
    "int f(void) { x = ; }",
    "int f(void) { x = (1; }",
    "int f(void) { x = 1 + ; }",
    "int f(void) { a[; }",
    "int f(void) { for (;;; ) ; }",
    "int f(void) { case 1: ; }" ,
    "int f(void) { default: ; }",
    "int f(void) { break; continue; }",
    "struct { int a; };",
    "struct s { int a };",
    "struct s { int; };",
    "struct s { a; };",
    "enum e { A B };",
    "enum e { 1 };",
    "enum { };",
    "typedef int T; typedef char T;",
    "typedef int T; int T;",
    "int T; typedef int T;",
    "typedef int T; T T;",
    "typedef;",
    "typedef int;",
    "int x = 08;",
    "int x = 1.2.3;",
    "int x = 0x;",
    "char c = '';",
    "char c = 'a;",
    "char *s = \"abc;",
    "char *s = \"\\q\";",
    "int x @ y;",
    "int $x;",
    "int `x;",
    "int x; }",
    "{ int x; }",
    "int f(void) { } }",
    "int f(int a, int a);",
    "int f(void) { int a; int a; }",
    "void f(int a) { int a; }",
    "long long long x;",
    "int int x;",
    "short long x;",
    "unsigned signed x;",
    "float double x;",
    "void f(void) { goto; }",
    "void f(void) { goto 1; }",
    "void f(void) { l: }",
    "void f(void) { sizeof(); }",
    "void f(void) { x = (int); }",
    "void f(void) { x = y z; }",
    "void f(void) { x ? y; }",
    "void f(void) { x.1; }",
    "void f(void) { x->; }",
    "void f(void) { f(1,); }",
    "void f(void) { f(,1); }",
    "_Static_assert();",
    "_Static_assert(1, 2);",
    "_Alignas() int x;",
    "_Alignas int x;",
    "#pragma",
    "# 1",
    "#line",
    "#line x",
    "# \"file\"",
    "#foo",
    "int x; # 5 \"a.c\"\nint y z;",
    "\n\n\n   int x y;",
    "int a;\nint b;\nint c d;\n",
    "/* comment */ int x;",
    "// comment\nint x;",
    "int x = 1 /* c */ + 2;",
    "\\",
    "int \\\nx;",
]


def gen_systematic():
    """Systematically generated declarations and statements."""
    out = []
    base_types = ["int", "char", "unsigned", "struct s", "T"]
    declarators = ["x", "*x", "x[3]", "(*x)(void)", "*x[2]", "(*x)[2]", "x(int a)"]
    quals = ["", "const ", "volatile ", "_Atomic "]
    n = 0
    for bt in base_types:
        for d in declarators:
            q = quals[n % len(quals)]
            pre = "typedef int T; " if bt == "T" else ""
            out.append(f"{pre}{q}{bt} {d};")
            if n % 3 == 0:
                out.append(f"{pre}_Atomic({bt}) {d};")
            if n % 4 == 1:
                out.append(f"{pre}typedef {q}_Atomic({bt}) {d}, second;")
            n += 1
    # switch nesting depths for fall-through cases
    for depth in range(1, 8):
        labels = " ".join(
            ("default:" if (i == depth // 2 and depth % 2 == 0) else f"case {i}:")
            for i in range(depth)
        )
        out.append(f"void f(int x) {{ switch (x) {{ {labels} x = {depth}; x++; }} }}")
        out.append(
            f"void f(int x) {{ switch (x) {{ x = 0; {labels} ; {labels} break; }} }}"
        )
    # binary operators
    for op in ["+", "-", "*", "/", "%", "<<", ">>", "<", ">", "<=", ">=", "==",
               "!=", "&", "|", "^", "&&", "||"]:
        out.append(f"int v = (a {op} b) {op} c {op} (d {op} e);")
    # positions
    for i in range(6):
        out.append("\n" * i + " " * (2 * i) + "int" + " " * (i + 1) + f"v{i};")
    return out


def section_snippets():
    emit("#" * 70)
    emit("# SNIPPETS")
    snippets = []
    for body in SWITCH_BODIES:
        snippets.append(f"void f(int x, int y) {{ {body} }}")
    snippets.extend(ATOMIC_DECLS)
    snippets.extend(GENERAL)
    snippets.extend(gen_systematic())
    emit(f"# {len(snippets)} snippets")
    for i, text in enumerate(snippets):
        # alternate between no file name and an explicit file name
        run_snippet(i, text, filename="" if i % 3 else "snip.c")


# ----------------------------------------------------------------------
# 3. Direct use of the AST classes
# ----------------------------------------------------------------------
SAMPLE_VALUES = {
    "str": "name",
}


def section_ast_classes():
    emit("#" * 70)
    emit("# AST CLASSES")
    names = sorted(
        n
        for n, o in vars(c_ast).items()
        if isinstance(o, type) and issubclass(o, c_ast.Node)
    )
    emit("public names: " + ",".join(sorted(n for n in vars(c_ast) if not n.startswith("_"))))
    for n in names:
        cls = getattr(c_ast, n)
        emit("-" * 60)
        emit(f"class {n} bases={[b.__name__ for b in cls.__bases__]}")
        emit(f"  __slots__={cls.__slots__!r}")
        emit(f"  attr_names={cls.attr_names!r}")
        emit(f"  doc={cls.__doc__!r}")
        if cls is c_ast.Node:
            node = cls()
            emit(f"  children()={node.children()!r}")
            emit(f"  repr={exc_or(lambda: repr(node))}")
            continue
        import inspect

        sig = inspect.signature(cls.__init__)
        emit(f"  sig={sig}")
        params = [p for p in sig.parameters if p not in ("self", "coord")]
        # 1. all None
        node = cls(*[None] * len(params))
        emit(f"  none: coord={node.coord!r} children={node.children()!r} iter={list(node)!r}")
        emit("  none repr: " + repr(node).replace("\n", "\n    "))
        emit("  none show: " + show_str(node, showcoord=True, attrnames=True).rstrip("\n"))
        emit("  none show noempty: " + show_str(node, showemptyattrs=False, attrnames=True, nodenames=True).rstrip("\n"))
        # 2. populated: attributes get strings / lists, children get nodes
        args = []
        for p in params:
            if p in cls.attr_names:
                if p in ("quals", "names", "storage", "funcspec", "dim_quals", "align"):
                    args.append([] if len(p) % 2 else ["q1", "q2"])
                else:
                    args.append(p.upper())
            else:
                args.append(None)
        node = cls(*args, coord="C:1:2")
        # find which params are sequences by probing
        for p in params:
            if p in cls.attr_names:
                continue
            setattr(node, p, c_ast.ID("probe_" + p, coord="P"))
            try:
                node.children()
                list(node)
                seq = False
            except TypeError:
                seq = True
            if seq:
                setattr(
                    node,
                    p,
                    [c_ast.ID(f"{p}_{k}", coord=f"S{k}") for k in range(3)],
                )
        emit(f"  full children={[(nm, type(c).__name__, getattr(c, 'name', None)) for nm, c in node.children()]}")
        emit(f"  full iter={[getattr(c, 'name', None) for c in node]}")
        emit("  full repr: " + repr(node).replace("\n", "\n    "))
        for kw in (
            dict(),
            dict(showcoord=True),
            dict(attrnames=True, nodenames=True),
            dict(attrnames=True, showemptyattrs=False, offset=4),
            dict(nodenames=True, showcoord=True, showemptyattrs=False),
        ):
            emit(f"  full show{sorted(kw.items())}:")
            OUT.write("    " + show_str(node, **kw).replace("\n", "\n    ").rstrip(" ") )
            emit()
        # empty sequences
        for p in params:
            if p not in cls.attr_names and isinstance(getattr(node, p), list):
                setattr(node, p, [])
        emit(f"  emptyseq children={node.children()!r} iter={list(node)!r}")
        # slots behaviour
        emit("  setattr bogus: " + exc_or(lambda: setattr(node, "bogus_attribute", 1)))
        emit("  weakref ok: " + exc_or(lambda: weakref.ref(node)() is node))
        emit("  missing arg: " + exc_or(lambda: cls(*[None] * (len(params) + 2))))
        emit("  kw coord: " + exc_or(lambda: cls(*[None] * len(params), coord=7).coord))
        emit("  has __dict__: " + str(hasattr(node, "__dict__")))

    # _repr helper and nested lists
    emit("-" * 60)
    emit("_repr: " + repr(c_ast._repr([1, "a", [2, [3, None]], c_ast.ID("x")])))
    emit("_repr: " + repr(c_ast._repr([])))
    emit("_repr: " + repr(c_ast._repr(("t", [1]))))
    emit("_repr: " + repr(c_ast._repr("s\nt")))

    # show with "empty" attribute values of several types
    emit("-" * 60)
    for val in (None, "", [], (), {}, 0, "x", [1], ["a", "b"], 0.0, False, c_ast.ID("i")):
        node = c_ast.Constant(val, val)
        emit(f"Constant({val!r}) show: " + show_str(node, attrnames=True).rstrip("\n"))
        emit(f"Constant({val!r}) show noempty: " + show_str(node, attrnames=True, showemptyattrs=False).rstrip("\n"))
        emit(f"Constant({val!r}) show noempty plain: " + show_str(node, showemptyattrs=False).rstrip("\n"))
    for quals in (None, [], ["const"], ["const", "volatile"]):
        node = c_ast.PtrDecl(quals, c_ast.TypeDecl("d", quals, None, c_ast.IdentifierType(["int"])))
        for kw in (dict(), dict(showemptyattrs=False), dict(attrnames=True, showemptyattrs=False, nodenames=True)):
            emit(f"PtrDecl({quals!r}) {sorted(kw.items())}:")
            OUT.write(show_str(node, **kw))

    # show default buffer is sys.stdout at import time
    emit("-" * 60)
    import inspect

    emit("show sig: " + str(inspect.signature(c_ast.Node.show)).replace(repr(sys.__stdout__), "<stdout>"))
    emit("show default buf is stdout: " + str(inspect.signature(c_ast.Node.show).parameters["buf"].default is sys.__stdout__))
    emit("visit sig: " + str(inspect.signature(c_ast.NodeVisitor.visit)))
    emit("generic_visit sig: " + str(inspect.signature(c_ast.NodeVisitor.generic_visit)))

    # NodeVisitor details
    emit("-" * 60)
    tree = c_ast.BinaryOp(
        "+",
        c_ast.ID("a"),
        c_ast.FuncCall(c_ast.ID("f"), c_ast.ExprList([c_ast.Constant("int", "1"), c_ast.ID("b")])),
    )

    class V1(c_ast.NodeVisitor):
        def __init__(self):
            self.log = []

        def visit_ID(self, node):
            self.log.append("ID " + node.name)
            return "id"

        def visit_FuncCall(self, node):
            self.log.append("FuncCall")
            return self.generic_visit(node)

        def generic_visit(self, node):
            self.log.append("generic " + type(node).__name__)
            return c_ast.NodeVisitor.generic_visit(self, node)

    v = V1()
    emit("V1 class cache before: " + repr(V1._method_cache))
    emit("V1 ret: " + repr(v.visit(tree)))
    emit("V1 log: " + repr(v.log))
    emit("V1 cache keys: " + repr(sorted(v._method_cache)))
    emit("V1 cache vals: " + repr(sorted((k, f.__name__) for k, f in v._method_cache.items())))
    emit("V1 class cache after: " + repr(V1._method_cache))
    emit("V1 visit ID ret: " + repr(v.visit(c_ast.ID("z"))))
    # method added after caching is not picked up
    V1.visit_Constant = lambda self, node: self.log.append("late Constant")
    v.log = []
    v.visit(tree)
    emit("V1 log (late method, cached): " + repr(v.log))
    v2 = V1()
    v2.visit(tree)
    emit("V1 log (late method, fresh): " + repr(v2.log))
    plain = c_ast.NodeVisitor()
    emit("plain ret: " + repr(plain.visit(tree)))
    emit("plain cache: " + repr(sorted(plain._method_cache)))
    emit("visit non-node: " + exc_or(lambda: plain.visit(42)))
    emit("visit None: " + exc_or(lambda: plain.visit(None)))
    emit("visit base Node: " + exc_or(lambda: plain.visit(c_ast.Node())))

    class Sub(c_ast.ID):
        __slots__ = ()

    emit("visit subclass: " + repr(v2.visit(Sub("sub"))))
    emit("subclass repr: " + exc_or(lambda: repr(Sub("sub"))))
    emit("subclass show: " + show_str(Sub("sub"), attrnames=True, nodenames=True, _my_node_name="nm").rstrip("\n"))
    emit("show _my_node_name no nodenames: " + show_str(c_ast.ID("q"), _my_node_name="nm").rstrip("\n"))
    emit("show _my_node_name '' : " + show_str(c_ast.ID("q"), nodenames=True, _my_node_name="").rstrip("\n"))
    emit("show bad child: " + exc_or(lambda: show_str(c_ast.Return("notanode"))))
    emit("show bad buf: " + exc_or(lambda: c_ast.ID("q").show(buf=None)))
    emit("repr nested lists: " + repr(c_ast.Decl("n", ["const"], [], ["static"], [], c_ast.TypeDecl("n", ["const"], None, c_ast.IdentifierType(["int"])), c_ast.InitList([c_ast.Constant("int", "1"), c_ast.InitList([])]), None)))


def exc_or(fn):
    try:
        return repr(fn())
    except Exception as e:  # noqa: BLE001
        return exc_str(e)


# ----------------------------------------------------------------------
# 4. Direct use of the transforms
# ----------------------------------------------------------------------
def section_transforms():
    emit("#" * 70)
    emit("# TRANSFORMS (direct)")
    ID, Case, Default, Compound, Switch = (
        c_ast.ID,
        c_ast.Case,
        c_ast.Default,
        c_ast.Compound,
        c_ast.Switch,
    )

    def st(n):
        return c_ast.Assignment("=", ID(n), c_ast.Constant("int", "0"), coord=f"st:{n}")

    def case(n, *stmts):
        return Case(c_ast.Constant("int", str(n)), list(stmts), coord=f"case:{n}")

    def default(*stmts):
        return Default(list(stmts), coord="default")

    cases = {
        "not compound": lambda: Switch(ID("x"), st("a"), "sw"),
        "stmt None": lambda: Switch(ID("x"), None, "sw"),
        "stmt is case": lambda: Switch(ID("x"), case(1, st("a")), "sw"),
        "block_items None": lambda: Switch(ID("x"), Compound(None, "cmp"), "sw"),
        "block_items empty": lambda: Switch(ID("x"), Compound([], "cmp"), "sw"),
        "no cases": lambda: Switch(ID("x"), Compound([st("a"), st("b")], "cmp"), "sw"),
        "simple": lambda: Switch(
            ID("x"),
            Compound([case(1, st("a")), st("b"), st("c"), default(st("d")), st("e")], "cmp"),
            "sw",
        ),
        "leading stmts": lambda: Switch(
            ID("x"), Compound([st("p"), st("q"), case(1, st("a")), st("b")], "cmp"), "sw"
        ),
        "nested 3": lambda: Switch(
            ID("x"),
            Compound([case(1, case(2, default(case(3, st("a"))))), st("b")], "cmp"),
            "sw",
        ),
        "nested default first": lambda: Switch(
            ID("x"),
            Compound([default(case(1, st("a"))), st("b"), case(2, case(3, st("c")))], "cmp"),
            "sw",
        ),
        "inner compound untouched": lambda: Switch(
            ID("x"),
            Compound([case(1, Compound([case(2, st("a")), st("b")], "in")), st("c")], "cmp"),
            "sw",
        ),
        "case with 2 stmts, first nested": lambda: Switch(
            ID("x"), Compound([case(1, case(2, st("a")), st("zz")), st("b")], "cmp"), "sw"
        ),
        "case with empty stmts": lambda: Switch(
            ID("x"), Compound([case(1), st("b")], "cmp"), "sw"
        ),
        "case stmts None": lambda: Switch(
            ID("x"), Compound([Case(ID("k"), None, "c"), st("b")], "cmp"), "sw"
        ),
        "not a switch": lambda: Compound([], "cmp"),
        "None": lambda: None,
        "tuple block_items": lambda: Switch(
            ID("x"), Compound((case(1, st("a")), st("b")), "cmp"), "sw"
        ),
    }
    for name, mk in cases.items():
        emit("-" * 60)
        emit(f"fix_switch_cases: {name}")
        try:
            node = mk()
            orig_stmt = getattr(node, "stmt", None)
            res = ast_transforms.fix_switch_cases(node)
            emit(f"same object returned: {res is node}; stmt replaced: {res.stmt is not orig_stmt}")
            OUT.write(show_str(res, showcoord=True, nodenames=True))
            emit(repr(res))
            # second application must be stable
            res2 = ast_transforms.fix_switch_cases(res)
            OUT.write(show_str(res2, showcoord=True))
        except Exception as e:  # noqa: BLE001
            emit(exc_str(e))

    emit("-" * 60)
    emit("_extract_nested_case direct")
    lst = ["sentinel"]
    c = case(1, case(2, case(3, st("a"))))
    emit(exc_or(lambda: ast_transforms._extract_nested_case(c, lst)))
    emit(repr([x if isinstance(x, str) else show_str(x, showcoord=True) for x in lst]))
    emit(show_str(c, showcoord=True))
    emit(exc_or(lambda: ast_transforms._extract_nested_case(case(1), [])))
    emit(exc_or(lambda: ast_transforms._extract_nested_case(st("a"), [])))

    # fix_atomic_specifiers
    TypeDecl, Typename, PtrDecl, Decl, Typedef, IdentifierType, ArrayDecl, FuncDecl = (
        c_ast.TypeDecl,
        c_ast.Typename,
        c_ast.PtrDecl,
        c_ast.Decl,
        c_ast.Typedef,
        c_ast.IdentifierType,
        c_ast.ArrayDecl,
        c_ast.FuncDecl,
    )

    def it(*names):
        return IdentifierType(list(names), coord="it")

    def atomic_tn(inner, quals=("_Atomic",), coord="tn"):
        return Typename(None, list(quals), None, inner, coord=coord)

    def mkdecl(name, typ, quals=()):
        return Decl(name, list(quals), [], [], [], typ, None, None, coord="decl")

    acases = {
        "plain int": lambda: mkdecl("x", TypeDecl("x", [], None, it("int"), coord="td")),
        "_Atomic qual only": lambda: mkdecl(
            "x", TypeDecl("x", ["_Atomic"], None, it("int"), coord="td")
        ),
        "_Atomic qual on typedecl, declname None": lambda: mkdecl(
            "x", TypeDecl(None, ["_Atomic"], None, it("int"), coord="td")
        ),
        "_Atomic(int) x": lambda: mkdecl(
            "x",
            TypeDecl("x", [], None, atomic_tn(TypeDecl(None, [], None, it("int"), coord=None)), coord="outer"),
        ),
        "_Atomic(int) x inner coord set": lambda: mkdecl(
            "x",
            TypeDecl("x", [], None, atomic_tn(TypeDecl(None, [], None, it("int"), coord="innerc")), coord="outer"),
        ),
        "const _Atomic(int) x": lambda: mkdecl(
            "x",
            TypeDecl("x", ["const"], None, atomic_tn(TypeDecl(None, ["volatile"], None, it("int"))), coord="outer"),
            quals=["const"],
        ),
        "dup quals": lambda: mkdecl(
            "x",
            TypeDecl("x", ["const", "volatile", "_Atomic"], None, atomic_tn(TypeDecl(None, ["volatile", "_Atomic"], None, it("int"))), coord="outer"),
            quals=["const"],
        ),
        "_Atomic(int*) x": lambda: mkdecl(
            "x",
            TypeDecl("x", [], None, atomic_tn(PtrDecl([], TypeDecl(None, [], None, it("int"), coord="itd"), coord=None)), coord="outer"),
        ),
        "ptr to _Atomic(int)": lambda: mkdecl(
            "x",
            PtrDecl([], TypeDecl("x", [], None, atomic_tn(TypeDecl(None, [], None, it("int"))), coord="outer"), coord="ptr"),
        ),
        "array of _Atomic(int)": lambda: mkdecl(
            "x",
            ArrayDecl(TypeDecl("x", [], None, atomic_tn(TypeDecl(None, [], None, it("int"))), coord="outer"), c_ast.Constant("int", "3"), [], coord="arr"),
        ),
        "nested _Atomic(_Atomic(int))": lambda: mkdecl(
            "x",
            TypeDecl(
                "x", [], None,
                atomic_tn(TypeDecl(None, [], None, atomic_tn(TypeDecl(None, [], None, it("int")), coord="tn2"), coord="mid")),
                coord="outer",
            ),
        ),
        "func returning _Atomic(int)": lambda: mkdecl(
            "f",
            FuncDecl(None, TypeDecl("f", [], None, atomic_tn(TypeDecl(None, [], None, it("int"))), coord="outer"), coord="fd"),
        ),
        "typedef": lambda: Typedef(
            "T", [], ["typedef"],
            TypeDecl("T", [], None, atomic_tn(TypeDecl(None, [], None, it("int"))), coord="outer"),
            coord="tdef",
        ),
        "typename non-atomic in chain": lambda: mkdecl(
            "x", TypeDecl("x", [], None, Typename(None, ["const"], None, TypeDecl(None, [], None, it("int"))), coord="outer")
        ),
        "type None": lambda: mkdecl("x", None),
        "struct type": lambda: mkdecl("x", TypeDecl("x", [], None, c_ast.Struct("s", None), coord="td")),
        "decl type is struct": lambda: mkdecl(None, c_ast.Struct("s", None)),
        "atomic typename directly under decl": lambda: mkdecl("x", atomic_tn(TypeDecl(None, [], None, it("int")))),
        "atomic typename under ptr": lambda: mkdecl("x", PtrDecl([], atomic_tn(TypeDecl(None, [], None, it("int"))))),
        "decl quals already atomic": lambda: mkdecl(
            "x", TypeDecl("x", [], None, atomic_tn(TypeDecl(None, [], None, it("int"))), coord="outer"), quals=["_Atomic"]
        ),
        "shared specifier": None,
    }
    for name, mk in acases.items():
        emit("-" * 60)
        emit(f"fix_atomic_specifiers: {name}")
        if mk is None:
            continue
        try:
            node = mk()
            res = ast_transforms.fix_atomic_specifiers(node)
            emit(f"same object returned: {res is node}")
            OUT.write(show_str(res, showcoord=True, attrnames=True, nodenames=True))
            emit(repr(res))
            emit("gen: " + exc_or(lambda: c_generator.CGenerator().visit(res)))
        except Exception as e:  # noqa: BLE001
            emit(exc_str(e))
        try:
            node = mk()
            r, found = ast_transforms._fix_atomic_specifiers_once(node)
            emit(f"once: found={found} same={r is node}")
            OUT.write(show_str(r, showcoord=True, attrnames=True))
        except Exception as e:  # noqa: BLE001
            emit(exc_str(e))

    emit("-" * 60)
    emit("shared specifier node is copied, not aliased")
    shared = atomic_tn(TypeDecl(None, [], None, it("int")))
    d1 = mkdecl("a", TypeDecl("a", [], None, shared, coord="o1"))
    d2 = mkdecl("b", PtrDecl([], TypeDecl("b", ["const"], None, shared, coord="o2")))
    r1 = ast_transforms.fix_atomic_specifiers(d1)
    r2 = ast_transforms.fix_atomic_specifiers(d2)
    emit(f"aliased: {r1.type is r2.type.type}; shared inner untouched: {shared.type.quals!r} {shared.type.declname!r} {shared.type.coord!r}")
    OUT.write(show_str(r1, showcoord=True, attrnames=True))
    OUT.write(show_str(r2, showcoord=True, attrnames=True))


# ----------------------------------------------------------------------
# 5. Package front end
# ----------------------------------------------------------------------
def section_frontend():
    emit("#" * 70)
    emit("# FRONT END")
    emit(f"__all__={pycparser.__all__!r} __version__={pycparser.__version__!r}")
    emit(f"CParser is c_parser.CParser: {pycparser.CParser is c_parser.CParser}")
    emit("public: " + ",".join(sorted(n for n in vars(pycparser) if not n.startswith("_"))))
    import inspect

    emit("preprocess_file sig: " + str(inspect.signature(preprocess_file)))
    emit("parse_file sig: " + str(inspect.signature(parse_file)))

    tmp = tempfile.mkdtemp(prefix="equiv_")

    def scrub(s):
        return s.replace(tmp, "<TMP>").replace(sys.executable, "<PY>")

    try:
        src = os.path.join(tmp, "in.c")
        with open(src, "w", encoding="utf-8") as f:
            f.write("int main(void) { return 0; }\n")
        latin = os.path.join(tmp, "latin.c")
        with open(latin, "wb") as f:
            f.write("char *s = \"caf\xe9\";\n".encode("latin-1"))
        bad = os.path.join(tmp, "bad.c")
        with open(bad, "w") as f:
            f.write("int main(void) { return 0 }\n")

        # "cpp" emulation with the python interpreter: echoes the file, after
        # printing the extra arguments as a pragma
        script = (
            "import sys; "
            "print('#pragma args ' + ' '.join(sys.argv[1:-1])); "
            "sys.stdout.write(open(sys.argv[-1]).read())"
        )
        script_file = os.path.join(tmp, "fakecpp.py")
        with open(script_file, "w") as f:
            f.write(script.replace("; ", "\n") + "\n")

        def pf(label, fn):
            emit("-" * 60)
            emit(label)
            try:
                r = fn()
            except Exception as e:  # noqa: BLE001
                emit(scrub(exc_str(e)))
                emit("cause: " + scrub(repr(e.__cause__)) + " context: " + scrub(repr(type(e.__context__).__name__)))
                return
            if isinstance(r, str):
                emit(scrub(repr(r)))
            else:
                OUT.write(scrub(show_str(r, showcoord=True)))
                emit(c_generator.CGenerator().visit(r))

        pf("preprocess list args", lambda: preprocess_file(src, sys.executable, ["-c", script, "A", "B"]))
        pf("preprocess str arg", lambda: preprocess_file(src, sys.executable, script_file))
        pf("preprocess empty list", lambda: preprocess_file(script_file, sys.executable, []))
        pf("preprocess default args, python as cpp", lambda: preprocess_file(script_file, sys.executable))
        pf("preprocess tuple args", lambda: preprocess_file(src, sys.executable, ("-c", script)))
        pf("preprocess None args", lambda: preprocess_file(src, sys.executable, None))
        pf("preprocess missing cpp", lambda: preprocess_file(src, os.path.join(tmp, "no_such_cpp")))
        pf("preprocess missing cpp w/ args", lambda: preprocess_file(src, os.path.join(tmp, "no_such_cpp"), ["-E"]))
        pf("preprocess cpp not executable", lambda: preprocess_file(src, src, "-E"))
        pf("preprocess cpp is dir", lambda: preprocess_file(src, tmp))
        pf("preprocess cpp failing", lambda: preprocess_file(src, sys.executable, ["-c", "import sys; sys.exit(3)"]))
        pf("preprocess list not extended in place", lambda: (lambda a: (preprocess_file(src, sys.executable, a), repr(a))[1])(["-c", script]))

        pf("parse_file plain", lambda: parse_file(src))
        pf("parse_file use_cpp list", lambda: parse_file(src, use_cpp=True, cpp_path=sys.executable, cpp_args=["-c", script, "X"]))
        pf("parse_file use_cpp str", lambda: parse_file(src, use_cpp=True, cpp_path=sys.executable, cpp_args=script_file))
        pf("parse_file use_cpp missing", lambda: parse_file(src, use_cpp=True, cpp_path=os.path.join(tmp, "nocpp")))
        pf("parse_file missing file", lambda: parse_file(os.path.join(tmp, "missing.c")))
        pf("parse_file syntax error", lambda: parse_file(bad))
        pf("parse_file encoding latin-1", lambda: parse_file(latin, encoding="latin-1"))
        pf("parse_file encoding utf-8 on latin-1 file", lambda: parse_file(latin, encoding="utf-8"))
        pf("parse_file bad encoding", lambda: parse_file(src, encoding="no-such-enc"))
        pf("parse_file custom parser", lambda: parse_file(src, parser=c_parser.CParser()))

        class FakeParser:
            def parse(self, text, filename):
                return f"FAKE {text!r} {filename!r}"

        pf("parse_file fake parser", lambda: parse_file(src, parser=FakeParser()))
        pf("parse_file fake parser + cpp", lambda: parse_file(src, True, sys.executable, ["-c", script], FakeParser()))
        pf("parse_file falsy parser object", lambda: parse_file(src, parser=0))
        pf("parse_file positional", lambda: parse_file(src, False, "cpp", "", None, "ascii"))
    finally:
        shutil.rmtree(tmp)


# ----------------------------------------------------------------------
# 6. The generator
# ----------------------------------------------------------------------
def section_generator():
    emit("#" * 70)
    emit("# _ast_gen")
    spec = importlib.util.spec_from_file_location(
        "_ast_gen_equiv", os.path.join(ROOT, "pycparser", "_ast_gen.py")
    )
    gen = importlib.util.module_from_spec(spec)
    spec.loader.exec_module(gen)
    cfg = os.path.join("pycparser", "_c_ast.cfg")
    g = gen.ASTCodeGenerator(cfg)
    buf = io.StringIO()
    g.generate(buf)
    text = buf.getvalue()
    # Only the per-node generated code is digested as text; the hand written
    # prologue (Node / NodeVisitor) is digested through its behaviour below.
    nodes_text = after_prologue(text)
    emit(
        f"generated node classes: {len(nodes_text)} chars "
        f"sha256={hashlib.sha256(nodes_text.encode()).hexdigest()}"
    )
    per_node = "".join(nc.generate_source() + "\n\n" for nc in g.node_cfg)
    emit(f"per-node sources concatenated == generated tail: {per_node == nodes_text}")
    emit(f"cfg_filename={g.cfg_filename!r} nodes={len(g.node_cfg)}")
    for nc in g.node_cfg:
        emit(f"{nc.name}: all={nc.all_entries} attr={nc.attr} child={nc.child} seq={nc.seq_child}")
    # the generated module must behave like the committed c_ast: compare the
    # compiled class surface
    ns = {}
    exec(compile(text, "<generated>", "exec"), ns)
    for name in sorted(n for n, o in ns.items() if isinstance(o, type)):
        a, b = ns[name], getattr(c_ast, name, None)
        same = (
            b is not None
            and getattr(a, "__slots__", None) == getattr(b, "__slots__", None)
            and getattr(a, "attr_names", None) == getattr(b, "attr_names", None)
        )
        emit(f"  {name}: matches c_ast: {same}")
    # behaviour of the freshly generated module (prologue included)
    G = type("G", (), ns)
    tree = G.FileAST(
        [
            G.Decl(
                "v", ["const"], [], ["static"], [],
                G.PtrDecl([], G.TypeDecl("v", ["const"], None, G.IdentifierType(["int"], "c4"), "c3"), "c2"),
                G.InitList([G.Constant("int", "1", "c6"), G.ID("w", "c7")], "c5"),
                None,
                "c1",
            ),
            G.FuncDef(G.Decl("f", [], [], [], [], None, None, None), None, G.Compound([G.Return(None)])),
        ],
        "c0",
    )
    emit("generated module repr:")
    emit(repr(tree))
    for kw in (
        dict(showcoord=True),
        dict(attrnames=True, nodenames=True, showemptyattrs=False, offset=2),
    ):
        b = io.StringIO()
        tree.show(buf=b, **kw)
        emit(f"generated module show {sorted(kw.items())}:")
        OUT.write(b.getvalue())

    class GV(G.NodeVisitor):
        def __init__(self):
            self.log = []

        def visit_ID(self, node):
            self.log.append("ID:" + node.name)
            return 5

        def generic_visit(self, node):
            self.log.append(type(node).__name__)
            return G.NodeVisitor.generic_visit(self, node)

    gv = GV()
    emit(f"generated module visitor ret={gv.visit(tree)!r} idret={gv.visit(G.ID('q'))!r}")
    emit(f"generated module visitor log={gv.log} cache={sorted(gv._method_cache)}")
    emit("generated module _repr: " + repr(ns["_repr"]([1, [2, "x"], G.ID("y")])))
    # (private, underscore-prefixed module-level helpers are not part of the
    # observable surface; _repr is exercised by behaviour above)
    emit("public names of generated: " + ",".join(sorted(n for n in ns if not n.startswith("_"))))
    emit("public names of c_ast:     " + ",".join(sorted(n for n in vars(c_ast) if not n.startswith("_"))))

    emit("-" * 60)
    for name, contents in [
        ("Empty", []),
        ("OnlyAttr", ["a", "b"]),
        ("OnlyChild", ["c*"]),
        ("OnlySeq", ["s**"]),
        ("Mixed", ["a", "c*", "s**", "b", "d*", "t**"]),
        ("Odd", ["x***", "*", "**"]),
    ]:
        nc = gen.NodeCfg(name, contents)
        emit(f"NodeCfg {name} {contents}: all={nc.all_entries} attr={nc.attr} child={nc.child} seq={nc.seq_child}")
        emit(nc.generate_source())

    tmp = tempfile.mkdtemp(prefix="equiv_cfg_")
    try:
        for i, body in enumerate(
            [
                "# c\n\nA: [x, y*, z**]\nB: []\n  C:   [ a ,b* ]  \n",
                "A [x]\n",
                ": [x]\n",
                "A: x]\n",
                "A: [x\n",
                "A: ][\n",
                "A[: ]\n",
                "A: [x] # trailing ] \n",
                "A: [[x]]\n",
                "",
            ]
        ):
            p = os.path.join(tmp, f"c{i}.cfg")
            with open(p, "w") as f:
                f.write(body)
            emit("-" * 60)
            emit(f"cfg {body!r}")
            try:
                g2 = gen.ASTCodeGenerator(p)
                b2 = io.StringIO()
                g2.generate(b2)
                emit(after_prologue(b2.getvalue()) if len(g2.node_cfg) else "(no nodes)")
                emit(repr([(n.name, n.all_entries) for n in g2.node_cfg]))
            except Exception as e:  # noqa: BLE001
                emit(exc_str(e).replace(tmp, "<TMP>"))
        emit("missing cfg: " + exc_or(lambda: gen.ASTCodeGenerator(os.path.join(tmp, "nope.cfg"))).replace(tmp, "<TMP>"))
    finally:
        shutil.rmtree(tmp)


def after_prologue(text):
    """The part of a generated module that follows the fixed prologue, i.e.
    everything after the NodeVisitor class."""
    start = text.index("\nclass NodeVisitor")
    nxt = text.find("\nclass ", start + 1)
    return "" if nxt < 0 else text[nxt + 1 :]


def main():
    section_files()
    section_snippets()
    section_ast_classes()
    section_transforms()
    section_frontend()
    section_generator()
    emit("#" * 70)
    emit("# END")


if __name__ == "__main__":
    main()
