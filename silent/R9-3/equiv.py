"""Behaviour digest for pycparser (statements / external declarations /
token helpers / scopes / pragmas / static_assert / parse() error paths).

Run as:  cd <repo root> && /venv/bin/python equiv.py > out.txt

For every input prints either the AST dump with coordinates plus the
regenerated C text, or the exception type and message.  Deterministic.
"""

import glob
import io
import itertools
import os
import sys

sys.path.insert(0, os.getcwd())

from pycparser import c_generator, c_parser  # noqa: E402

print("pycparser from", os.path.dirname(c_parser.__file__), file=sys.stderr)


def digest(label, text, filename="<in>", parser=None):
    print("=" * 72)
    print("INPUT", label)
    try:
        if parser is None:
            parser = c_parser.CParser()
        ast = parser.parse(text, filename)
        buf = io.StringIO()
        ast.show(buf=buf, showcoord=True, attrnames=True, nodenames=True)
        print("AST")
        print(buf.getvalue(), end="")
        try:
            gen = c_generator.CGenerator().visit(ast)
            print("GEN")
            print(gen)
        except Exception as e:  # generator failure is behaviour as well
            print("GENEXC", type(e).__name__, str(e))
    except RecursionError:
        print("EXC RecursionError")
    except Exception as e:
        print("EXC", type(e).__name__, str(e))


# ----------------------------------------------------------------------
# 1. Files shipped with the repository, parsed without cpp.
# ----------------------------------------------------------------------
files = sorted(
    glob.glob("tests/c_files/**/*.[ch]", recursive=True)
    + glob.glob("examples/c_files/**/*.[ch]", recursive=True)
)
for path in files:
    with open(path) as f:
        src = f.read()
    digest("FILE " + path, src, filename=path)

# ----------------------------------------------------------------------
# 2. Hand-written snippets.
# ----------------------------------------------------------------------
SNIPPETS = [
    # --- empty / trivial translation units --------------------------------
    "",
    " \n\t\n",
    ";",
    ";;;",
    "int x;",
    "int x",
    "int x; ;; int y;",
    "x;",
    "x",
    "int;",
    "int",
    "typedef int T; T;",
    "}",
    "{",
    "{}",
    "int x; }",
    "int f(void) { } }",
    "int f(void) { { } ",
    "int f(void) {",
    "int f(void) { return 1; ",
    "@",
    "int x = 1 $ 2;",
    "int a; @",
    # --- pp directives and pragmas at file scope ---------------------------
    "#define X 1\n",
    "int a;\n#define X 1\nint b;\n",
    "# 12 \"foo.c\"\nint a;\n",
    "#line 30 \"bar.h\"\nint a;\nint b\n",
    "# 12 \"foo.c\"\nint f(void) {\n# 50 \"inc.h\"\n  return 1;\n}\n",
    "int a;\n# 7 \"other.c\"\n}\n",
    "#pragma\n",
    "#pragma once\n",
    "#pragma omp parallel for   \nint x;\n",
    "#pragma a\n#pragma b\nint x;\n#pragma c\n",
    "_Pragma(\"once\")",
    "_Pragma(\"a\" \"b\") int x;",
    "_Pragma(L\"wide\")",
    "_Pragma(1)",
    "_Pragma \"x\"",
    "_Pragma(\"x\"",
    "_Pragma(",
    "_Pragma",
    "int f(void) { _Pragma(\"in\") return 1; }",
    "int f(void) { _Pragma(\"in\") }",
    "int f(void) {\n#pragma one\n}\n",
    "int f(void) {\n#pragma one\n#pragma two\n  x = 1;\n#pragma three\n}\n",
    "int f(void) { if (a)\n#pragma p\n  b = 1;\n else\n#pragma q\n#pragma r\n c = 2; }\n",
    "int f(void) { while (a)\n#pragma p\n  b++; }\n",
    "int f(void) { for (;;)\n#pragma p\n  ; }\n",
    "int f(void) { do\n#pragma p\n  b++; while (1); }\n",
    "int f(void) { switch (a) { case 1:\n#pragma p\n  b++; break; default:\n#pragma q\n ; } }\n",
    "int f(void) { l:\n#pragma p\n  b++; }\n",
    "int f(void) { if (a)\n#pragma p\n }\n",
    "struct s {\n#pragma pack\n int a; };\n",
    # --- static assert --------------------------------------------------------
    "_Static_assert(1, \"msg\");",
    "_Static_assert(1);",
    "_Static_assert(sizeof(int) == 4, \"a\" \"b\");",
    "_Static_assert(1, \"msg\")",
    "_Static_assert(1, \"msg\") int x;",
    "_Static_assert(1, 2);",
    "_Static_assert(1, );",
    "_Static_assert(, \"m\");",
    "_Static_assert 1;",
    "_Static_assert(1, \"m\";",
    "_Static_assert(",
    "_Static_assert",
    "_Static_assert(a = 1, \"m\");",
    "int f(void) { _Static_assert(1, \"in\"); return 0; }",
    "int f(void) { _Static_assert(1, \"in\") }",
    "int f(void) { if (a) _Static_assert(1, \"x\"); }",
    "int f(void) { l: _Static_assert(1, \"x\"); }",
    "int f(void) { for (;;) _Static_assert(1); }",
    "struct s { int a; _Static_assert(1, \"m\"); };",
    # --- function definitions ----------------------------------------------------
    "int main(void) { return 0; }",
    "int main() {}",
    "main() { return 0; }",
    "main() return 0;",
    "main();",
    "main(a, b) int a; char b; { return a + b; }",
    "main(a, b) { return 0; }",
    "int f(a, b) int a; char b; { return a; }",
    "int f(a, b) int a, b; { return a; }",
    "int f(a) int a; return a;",
    "int f(a) int a;",
    "int f(a) int a",
    "static inline int f(int x) { return x; }",
    "static f(int x) { return x; }",
    "const f(void) { return 1; }",
    "extern int f(int), g(void);",
    "int f(int x), y = 2, *z;",
    "int f(int x) = 3;",
    "int (*fp)(int) = 0;",
    "int (f)(int x) { return x; }",
    "int *f(void) { return 0; }",
    "int x = 1, y = {2}, z[2] = {1, 2};",
    "int x = ;",
    "int x = 1 y;",
    "int x, ;",
    "int x,, y;",
    "typedef int T; T f(T t) { T u = t; return u; }",
    "typedef int T; T x = 1;",
    "typedef int T; T T2;",
    "typedef int T; int T;",
    "typedef int T; void f(void) { int T; T = 1; }",
    "typedef int T; void f(void) { int T; { T x; } }",
    "typedef int T; void f(void) { { int T; } T x; }",
    "typedef int T; void f(int T) { T = 2; }",
    "typedef int T; void f(void) { T T; }",
    "typedef int T; void f(void) { T T; T x; }",
    "int x; typedef int x;",
    "typedef int x; typedef int x;",
    "void f(void) { int x; typedef int x; }",
    "void f(void) { typedef int y; int y; }",
    "typedef int T; enum { T };",
    "enum { A, B }; typedef int A;",
    "typedef int T; T (x);",
    "typedef int T; int f(int (T));",
    "typedef int T; int f(int (T)) { return 0; }",
    "typedef struct s { int a; } S; S f(S *p) { return *p; }",
    "typedef int T; struct s { T T; };",
    "struct s; union u { int a; float b; } v;",
    "enum e { A = 1, B, } x;",
    "void (*signal(int sig, void (*func)(int)))(int);",
    "int f(int x, ...) { return x; }",
    "int f(void) { return; }",
    "int 5;",
    "int f(void) 5",
    "int f(void) int",
    "int f(x) { }",
    "f(x) int x; { }",
    "f",
    "f(",
    "f()",
    "(f)() { }",
    "*f() { return 0; }",
    "5;",
    "+;",
    "return 1;",
    "if (x) y;",
    "int f(void) { } int g(void) { }",
    "int f(void) { } ; int g(void) { } ;",
    # --- statements -----------------------------------------------------------------
    "void f(void) { ; }",
    "void f(void) { ;; }",
    "void f(void) { a; b = 1; c(2); }",
    "void f(void) { a }",
    "void f(void) { a b; }",
    "void f(void) { 1 + ; }",
    "void f(void) { int a = 1; a++; int b; b = a; }",
    "void f(void) { int a, b; { int c; { } } }",
    "void f(void) { {{{}}} }",
    "void f(void) { if (a) b; }",
    "void f(void) { if (a) b; else c; }",
    "void f(void) { if (a) if (b) c; else d; }",
    "void f(void) { if (a) { b; } else if (c) { d; } else { e; } }",
    "void f(void) { if a b; }",
    "void f(void) { if (a b; }",
    "void f(void) { if () b; }",
    "void f(void) { if (a) }",
    "void f(void) { if (a) int x; }",
    "void f(void) { if (a) b; else }",
    "void f(void) { else b; }",
    "void f(void) { switch (a) { case 1: b; break; case 2: case 3: c; default: d; } }",
    "void f(void) { switch (a) { case 1: case 2: } }",
    "void f(void) { switch (a) { default: } }",
    "void f(void) { switch (a) { int x; case 1: x = 1; } }",
    "void f(void) { switch (a) case 1: b; }",
    "void f(void) { switch (a) b; }",
    "void f(void) { switch (a) { case 1: { case 2: b; } } }",
    "void f(void) { switch (a) { case 1 b; } }",
    "void f(void) { switch (a) { case : b; } }",
    "void f(void) { switch (a) { case x = 1: b; } }",
    "void f(void) { switch (a) { default b; } }",
    "void f(void) { switch a { } }",
    "void f(void) { switch (a) { case 1: int x; } }",
    "void f(void) { case 1: b; }",
    "void f(void) { default: b; }",
    "void f(void) { while (a) b; }",
    "void f(void) { while (a) { b; continue; } }",
    "void f(void) { while () b; }",
    "void f(void) { while (a) }",
    "void f(void) { while a b; }",
    "void f(void) { do a; while (b); }",
    "void f(void) { do { a; } while (b); }",
    "void f(void) { do a; while (b) }",
    "void f(void) { do a; until (b); }",
    "void f(void) { do a while (b); }",
    "void f(void) { do while (b); }",
    "void f(void) { for (;;) ; }",
    "void f(void) { for (i = 0; i < 10; i++) a; }",
    "void f(void) { for (int i = 0, j = 1; i < 10; i++, j--) { a; } }",
    "void f(void) { for (int i; ; ) a; }",
    "void f(void) { for (i = 0, j = 0; ; ) a; }",
    "void f(void) { for (;; i++) a; }",
    "void f(void) { for (; i;) a; }",
    "void f(void) { for (int i = 0; i < 3) a; }",
    "void f(void) { for (i = 0; i < 3) a; }",
    "void f(void) { for (;) a; }",
    "void f(void) { for (;;;) a; }",
    "void f(void) { for ;; a; }",
    "void f(void) { for (;;) }",
    "void f(void) { for (;;) int x; }",
    "typedef int T; void f(void) { for (T i = 0; i < 3; i++) ; }",
    "void f(void) { for (struct { int a; } s = {0}; s.a < 3; s.a++) ; }",
    "void f(void) { goto l; l: a; }",
    "void f(void) { l: ; }",
    "void f(void) { l: }",
    "void f(void) { l: m: n: a; }",
    "void f(void) { l: int x; }",
    "void f(void) { l: { int x; } }",
    "typedef int T; void f(void) { T: a; }",
    "void f(void) { goto; }",
    "void f(void) { goto 1; }",
    "void f(void) { goto l }",
    "typedef int T; void f(void) { goto T; }",
    "void f(void) { break; }",
    "void f(void) { break }",
    "void f(void) { continue; }",
    "void f(void) { continue 1; }",
    "void f(void) { return; }",
    "void f(void) { return 1, 2; }",
    "void f(void) { return (1); }",
    "void f(void) { return }",
    "void f(void) { return 1 }",
    "void f(void) { return int; }",
    "void f(void) { a ? b : c; }",
    "void f(void) { a = b = c; }",
    "void f(void) { a, b; }",
    "void f(void) { (void)a; sizeof(int); sizeof a; }",
    "void f(void) { \"str\"; 'c'; 1.5; 0x10; L\"w\"; }",
    "void f(void) { x = (struct s){1, 2}; }",
    "void f(void) { a[1].b->c(d, e)++; }",
    "void f(void) { -a; +a; !a; ~a; *a; &a; ++a; --a; }",
    "void f(void) { x = __builtin_offsetof(struct s, a.b[1]); }",
    "void f(void) { x = _Alignof(int); }",
    "void f(void) { int a[3] = {[0] = 1, [2] = 3}; struct s t = {.a = 1, .b.c = 2}; }",
    "void f(void) { static int x; extern int y; register int z; auto int w; }",
    "void f(void) { struct s { int a; } v; union u w; enum e { A } k; }",
    "void f(void) { typedef int T; T x; } T y;",
    "void f(void) { typedef int T; T x; } int T;",
    "void f(void) { int x; } }",
    "void f(void) { ) }",
    "void f(void) { ] }",
    "void f(void) { : }",
    "void f(void) { # }",
    "void f(void) { int }",
    "void f(void) { int; }",
    "void f(void) { x = 1;\n  y = 2;\n\n  {\n    z = 3;\n  }\n}\n",
    "void f(void)\n{\n  if (a)\n    b;\n  else\n    c;\n  while (d)\n    e;\n}\n",
    "void f(void) { void g(void) { } }",
    "void f(void) { int g(int); g(1); }",
    "int a[10]; int (*p)[10] = &a; int *q[10];",
    "_Atomic int x; _Atomic(int) y; _Alignas(8) int z; _Alignas(int) char c;",
    "_Noreturn void f(void) { for (;;) ; }",
    "_Thread_local int t; static _Thread_local int u;",
    "__int128 big; unsigned __int128 ubig;",
    "int f(int a[static 3], int b[const], int c[*]);",
    "void f(void) { int n = 3; int vla[n]; }",
    "char *s = \"a\" \"b\" \"c\"; int *w = L\"a\" L\"b\";",
    "int x = 'ab';",
    "int x = '';",
    "char *s = \"abc;",
    "int x = 09;",
    "int x = 1.2.3;",
    "int x = 0x;",
    "/* comment */ int x;",
]

for i, src in enumerate(SNIPPETS):
    digest("SNIPPET %03d %r" % (i, src), src)

# ----------------------------------------------------------------------
# 3. Systematically generated inputs.
# ----------------------------------------------------------------------
BODIES = [
    "a;",
    ";",
    "{ }",
    "{ a; b; }",
    "int x;",
    "return a;",
    "break;",
    "l: a;",
    "case 1: a;",
    "_Static_assert(1, \"m\");",
    "\n#pragma p\n a;",
    "",
]
HEADS = [
    "if (c) %s",
    "if (c) %s else %s",
    "while (c) %s",
    "do %s while (c);",
    "for (i = 0; i < n; i++) %s",
    "for (int i = 0; ; ) %s",
    "switch (c) %s",
    "switch (c) { case 1: %s default: %s }",
    "l2: %s",
    "{ %s %s }",
]
n = 0
for head in HEADS:
    k = head.count("%s")
    combos = itertools.product(BODIES, repeat=k) if k == 1 else zip(BODIES, BODIES[1:] + BODIES[:1])
    for combo in combos:
        src = "void f(void) {\n  " + head % tuple(combo) + "\n}\n"
        digest("GEN-STMT %03d %r" % (n, src), src)
        n += 1

# Every token kind as the first token of an external declaration, of a
# block item and right after a label.
STARTERS = [
    "x", "T", "1", "1.0", "'c'", "\"s\"", "L\"s\"", "(", ")", "[", "]", "{", "}",
    ";", ",", ":", "?", "=", "+=", "+", "-", "*", "&", "!", "~", "++", "--",
    "->", ".", "...", "<", "==", "sizeof", "_Alignof", "__builtin_offsetof",
    "int", "void", "unsigned", "const", "volatile", "restrict", "static",
    "extern", "typedef", "inline", "register", "auto", "struct", "union",
    "enum", "_Atomic", "_Alignas", "_Noreturn", "_Thread_local", "_Bool",
    "_Complex", "__int128", "if", "else", "switch", "case", "default",
    "while", "do", "for", "goto", "break", "continue", "return",
    "_Static_assert", "_Pragma", "#pragma z\n", "#", "# 5 \"q.c\"\n",
]
for n, s in enumerate(STARTERS):
    for ctx, tmpl in (
        ("EXT", "typedef int T;\n%s y;\n"),
        ("EXT2", "typedef int T;\n%s"),
        ("BLK", "typedef int T;\nvoid f(void) {\n  %s y;\n}\n"),
        ("LBL", "typedef int T;\nvoid f(void) {\n  l: %s y;\n}\n"),
        ("EOF", "typedef int T;\nvoid f(void) {\n  %s"),
    ):
        src = tmpl % s
        digest("GEN-START %s %03d %r" % (ctx, n, src), src)

# Truncations of one moderately rich program: every prefix (token-ish
# granularity) must give the same error or the same tree.
PROGRAM = (
    "typedef int T;\n"
    "#pragma top\n"
    "_Static_assert(1, \"ok\");\n"
    "static T g = 1, *h;\n"
    "int old(a, b) T a; char b; { return a; }\n"
    "impl() { return 1; }\n"
    "int main(int argc, char **argv)\n"
    "{\n"
    "  T i = 0;\n"
    "  for (int j = 0; j < argc; j++) {\n"
    "    if (j & 1) continue; else i += j;\n"
    "  }\n"
    "  switch (i) { case 0: i++; break; default: ; }\n"
    "  do { i--; } while (i > 0);\n"
    "#pragma inner\n"
    "  lbl: goto lbl;\n"
    "  return i ? 1 : 0;\n"
    "}\n"
)
for cut in range(0, len(PROGRAM) + 1, 2):
    src = PROGRAM[:cut]
    digest("GEN-TRUNC %03d" % cut, src, filename="prog.c")

# Re-use of one parser object: state (scopes, token stream) must be reset
# by parse(), including after a failed parse.
shared = c_parser.CParser()
for n, src in enumerate(
    [
        "typedef int T; T x;",
        "T x;",
        "int T;",
        "void f(void) { typedef int U; {",
        "U y;",
        "int z; }",
        "typedef int T; void f(void) { T T; }",
        "T;",
        "",
        "int ok(void) { return 1; }",
    ]
):
    digest("GEN-REUSE %02d %r" % (n, src), src, filename="reuse%d.c" % n, parser=shared)

# Direct exercise of the token helpers / token stream / scope helpers.
print("=" * 72)
print("HELPERS")


def helper_session(text):
    p = c_parser.CParser()
    p._scope_stack = [dict()]
    p.clex.input(text, "h.c")
    p._tokens = c_parser._TokenStream(p.clex)
    return p


def show_tok(t):
    if t is None:
        return "None"
    return "%s:%r@%s:%s" % (t.type, t.value, t.lineno, t.column)


def attempt(label, fn):
    try:
        r = fn()
        if hasattr(r, "type") and hasattr(r, "lineno"):
            r = show_tok(r)
        print(label, "->", r)
    except Exception as e:
        print(label, "EXC", type(e).__name__, str(e))


for text in ["", "a", "a b", "a + b ; c", "int x ; { y ; }", "}", "a @"]:
    print("-- helpers on %r" % text)
    p = helper_session(text)
    attempt("peek0", lambda: p._peek(0))
    attempt("peek-1", lambda: p._peek(-1))
    attempt("peek_type0", lambda: p._peek_type(0))
    attempt("peek1", lambda: p._peek())
    attempt("peek_type1", lambda: p._peek_type())
    attempt("peek2", lambda: p._peek(2))
    attempt("peek_type2", lambda: p._peek_type(2))
    attempt("mark", lambda: p._mark())
    attempt("accept SEMI", lambda: p._accept("SEMI"))
    attempt("accept ID", lambda: p._accept("ID"))
    attempt("mark", lambda: p._mark())
    attempt("starts_decl", lambda: p._starts_declaration())
    attempt("starts_expr", lambda: p._starts_expression())
    attempt("starts_stmt", lambda: p._starts_statement())
    attempt("advance", lambda: p._advance())
    attempt("expect ID", lambda: p._expect("ID"))
    attempt("mark", lambda: p._mark())
    attempt("reset0", lambda: p._reset(0))
    attempt("peek1", lambda: p._peek())
    attempt("advance", lambda: p._advance())
    attempt("advance", lambda: p._advance())
    attempt("advance", lambda: p._advance())
    attempt("advance", lambda: p._advance())
    attempt("advance", lambda: p._advance())
    attempt("advance", lambda: p._advance())
    attempt("peek1", lambda: p._peek())
    attempt("mark", lambda: p._mark())
    attempt("buffer", lambda: [show_tok(t) for t in p._tokens._buffer])
    attempt("scopes", lambda: p._scope_stack)

print("-- token stream")
p = helper_session("a b c d")
ts = p._tokens
attempt("peek3", lambda: ts.peek(3))
attempt("next", lambda: ts.next())
attempt("mark", lambda: ts.mark())
attempt("next", lambda: ts.next())
attempt("peek1", lambda: ts.peek())
attempt("reset1", lambda: ts.reset(1))
attempt("peek1", lambda: ts.peek())
attempt("peek4", lambda: ts.peek(4))
attempt("peek5", lambda: ts.peek(5))
attempt("buffer", lambda: [show_tok(t) for t in ts._buffer])
attempt("next", lambda: ts.next())
attempt("next", lambda: ts.next())
attempt("next", lambda: ts.next())
attempt("next", lambda: ts.next())
attempt("next", lambda: ts.next())
attempt("buffer", lambda: [show_tok(t) for t in ts._buffer])
attempt("index", lambda: ts._index)

print("-- scopes")
p = helper_session("")
attempt("is_type T", lambda: p._is_type_in_scope("T"))
attempt("add_typedef T", lambda: p._add_typedef_name("T", p._coord(1, 2)))
attempt("add_typedef T again", lambda: p._add_typedef_name("T", p._coord(1, 3)))
attempt("is_type T", lambda: p._is_type_in_scope("T"))
attempt("add_identifier T", lambda: p._add_identifier("T", p._coord(2, 2)))
attempt("add_identifier T nocoord", lambda: p._add_identifier("T", None))
attempt("push", lambda: p._push_scope())
attempt("add_identifier T", lambda: p._add_identifier("T", p._coord(3, 2)))
attempt("add_identifier T again", lambda: p._add_identifier("T", p._coord(3, 4)))
attempt("is_type T", lambda: p._is_type_in_scope("T"))
attempt("lookup T", lambda: p._lex_type_lookup_func("T"))
attempt("add_typedef T", lambda: p._add_typedef_name("T", p._coord(4, 2)))
attempt("add_typedef T nocoord", lambda: p._add_typedef_name("T", None))
attempt("add_typedef U", lambda: p._add_typedef_name("U", None))
attempt("push", lambda: p._push_scope())
attempt("is_type U", lambda: p._is_type_in_scope("U"))
attempt("is_type V", lambda: p._is_type_in_scope("V"))
attempt("scopes", lambda: p._scope_stack)
attempt("pop", lambda: p._pop_scope())
attempt("pop", lambda: p._pop_scope())
attempt("is_type T", lambda: p._is_type_in_scope("T"))
attempt("is_type U", lambda: p._is_type_in_scope("U"))
attempt("pop", lambda: p._pop_scope())
attempt("rbrace", lambda: p._lex_on_rbrace_func())
attempt("lbrace", lambda: p._lex_on_lbrace_func())
attempt("scopes", lambda: p._scope_stack)
attempt("lex_error", lambda: p._lex_error_func("boom", 3, 4))
attempt("parse_error coord", lambda: p._parse_error("m", p._coord(1)))
attempt("parse_error str", lambda: p._parse_error("m", "file.c"))
attempt("parse_error none", lambda: p._parse_error("m", None))
attempt("coord", lambda: str(p._coord(5, 6)))
attempt("coord nocol", lambda: str(p._coord(5)))

print("-- first sets")
for name in [
    "_ASSIGNMENT_OPS", "_STORAGE_CLASS", "_FUNCTION_SPEC", "_TYPE_QUALIFIER",
    "_TYPE_SPEC_SIMPLE", "_DECL_START", "_EXPR_START", "_INT_CONST",
    "_FLOAT_CONST", "_CHAR_CONST", "_STRING_LITERAL", "_WSTR_LITERAL",
    "_STARTS_EXPRESSION", "_STARTS_STATEMENT",
]:
    print(name, sorted(getattr(c_parser, name)))
print("_BINARY_PRECEDENCE", sorted(c_parser._BINARY_PRECEDENCE.items()))
