"""Behaviour digest for pycparser, focused on pycparser/c_generator.py.

Run as:   cd <repo root> && /venv/bin/python equiv.py > out.txt
(the script may live anywhere: the current directory is put first on sys.path)

For every input it prints either the AST dump with coordinates and the
generated C (plain and with reduce_parentheses=True, plus a second generation
of the re-parsed output), or the exception type and message.  A second part
drives the generator directly on hand-built / partial ASTs, including error
cases.  Output is deterministic.
"""

import ast as pyast
import io
import os
import sys

sys.path.insert(0, os.getcwd())
sys.setrecursionlimit(10000)

from pycparser import c_ast, c_generator, c_parser  # noqa: E402

assert os.path.dirname(os.path.dirname(os.path.abspath(c_parser.__file__))) == os.path.abspath(os.getcwd()), \
    "pycparser not imported from the current directory"


def out(s=""):
    sys.stdout.write(s + "\n")


def describe_exc(e):
    return "EXC %s: %s" % (type(e).__name__, e)


def dump(node):
    buf = io.StringIO()
    node.show(buf=buf, showcoord=True, attrnames=True, nodenames=True)
    return buf.getvalue()


def gen(node, reduce_parentheses):
    g = c_generator.CGenerator(reduce_parentheses=reduce_parentheses)
    try:
        text = g.visit(node)
    except Exception as e:  # noqa: BLE001
        return describe_exc(e) + " [indent_level=%r]" % (g.indent_level,)
    return "%s<<indent_level=%r>>" % (text, g.indent_level)


def run_source(label, src, filename="<in>"):
    out("=" * 70)
    out("INPUT %s" % label)
    try:
        tree = c_parser.CParser().parse(src, filename)
    except Exception as e:  # noqa: BLE001
        out(describe_exc(e))
        return
    out("--- AST")
    out(dump(tree))
    for rp in (False, True):
        out("--- GEN reduce_parentheses=%r" % rp)
        text = gen(tree, rp)
        out(text)
        # Round trip: generated text parsed and generated again.
        if not text.startswith("EXC "):
            code = text[: text.rindex("<<indent_level=")]
            try:
                tree2 = c_parser.CParser().parse(code, "<gen>")
            except Exception as e:  # noqa: BLE001
                out("--- REPARSE " + describe_exc(e))
            else:
                text2 = gen(tree2, rp)
                out("--- REGEN same=%r" % (text2 == text))
                if text2 != text:
                    out(text2)
    # Per-node generation: every node of the tree visited on its own with a
    # fresh generator (partial generation is a documented use).
    out("--- NODES")

    class V(c_ast.NodeVisitor):
        def generic_visit(self, node):
            for rp in (False, True):
                out("%s rp=%d: %s" % (type(node).__name__, rp, gen(node, rp)))
            for _, c in node.children():
                self.visit(c)

    # Only for small inputs, to keep the digest at a reasonable size.
    if len(src) < 400:
        V().visit(tree)


# ---------------------------------------------------------------------------
# Part 1: C files in the repository
# ---------------------------------------------------------------------------
def c_files():
    res = []
    for root in ("tests/c_files", "examples/c_files"):
        for dirpath, dirnames, filenames in os.walk(root):
            dirnames.sort()
            for fn in sorted(filenames):
                res.append(os.path.join(dirpath, fn).replace(os.sep, "/"))
    return res


# ---------------------------------------------------------------------------
# Part 2: snippets
# ---------------------------------------------------------------------------
HAND = [
    # declarations
    "int a;",
    "int b, a;",
    "int c = 1, *b, a[3];",
    "auto int a; register int r; static int s; extern int e; _Thread_local int t;",
    "const volatile int cv; int * const p1; const int * volatile * restrict p2;",
    "int** (*a)(void);",
    "int** (*a)(void*, int);",
    "int (*b)(char * restrict k, float);",
    "int (*b)(char * _Atomic volatile k, float);",
    "int test(const char* const* arg);",
    "int test(const char** const arg);",
    "int (*(*fp)(int))[10];",
    "int (*arr_of_fp[4])(int, ...);",
    "int *(*(*x[3])())[5];",
    "char *(*(**foo[][8])())[];",
    "void (*signal(int sig, void (*func)(int)))(int);",
    "int f(int a[static 10], int b[const], int c[restrict static 3], int d[*]);",
    "int g(const int a[const 20]){}",
    "int m[2][3][4];",
    "int vla(int n, int a[n][n]);",
    "unsigned long long int ull; long double ld; signed char sc; _Bool bb; _Complex double cd;",
    "__int128 big;",
    "typedef int T; T x; T *y; T f(T); typedef T U[3]; U u;",
    "typedef int (*fptr)(int, char); fptr table[3];",
    "typedef struct node_t { struct node_t* next; int data; } node;",
    "typedef static int bad;",
    "extern typedef int ext_t;",
    "inline int f(void); static inline int g(void) { return 1; }",
    "_Noreturn void die(void); _Noreturn int x(void) { abort(); }",
    "_Alignas(32) int b; int _Alignas(32) a; _Alignas(long long) int c;",
    "_Alignas(32) _Atomic(int) b; _Atomic(int) _Alignas(32) c; _Alignas(8) _Alignas(16) int d;",
    "typedef struct node_t { _Alignas(64) void* next; void _Alignas(64) * p; int data; } node;",
    "_Atomic int x; _Atomic int* y; int* _Atomic z;",
    "_Atomic(int) x; _Atomic(int*) y; _Atomic(_Atomic(int)*) z;",
    "typedef _Atomic(int) atomic_int;",
    "typedef _Atomic(_Atomic(_Atomic(int (*)(void)) *) *) t;",
    "auto const _Atomic(int *) a;",
    "typedef struct node_t { _Atomic(void*) a; _Atomic(void) *b; _Atomic void *c; } node;",
    "int f(void), g(int), *h(char, ...);",
    "int f(int, char *, double []);",
    "int f(int (*)(int), int (*[3])(void), int (int));",
    "int f();",
    "void f(register int a, const char *restrict s);",
    # struct / union / enum
    "struct foo;",
    "struct foo {};",
    "union u;",
    "union u { int a; float b; };",
    "struct s { int a : 3; unsigned : 0; int b : 2 + 1; const int c; };",
    "struct { int a; } anon1; union { int a; } anon2; enum { A } anon3;",
    "struct outer { struct inner { int k; union { int i; float f; }; } in; struct inner *p; int j; } o;",
    "struct s { int a, b, *c; struct { int x; }; };",
    "struct s { int (*cb)(struct s *self, int); char name[16]; };",
    "enum e { a, b = 2, c = 3 };",
    "enum f { g = 4, h, i, };",
    "enum e;",
    "enum { X = 1 << 2, Y = X | 1, Z = sizeof(int) } v = X;",
    "enum e {};",
    "typedef enum EnumName EnumTypedefName;",
    "typedef enum { RED, GREEN = RED + 2 } color_t; color_t c = GREEN;",
    "void f(void) { struct local { int a; enum { P, Q } e; } l; union lu { int i; } u; enum le { M } m; }",
    "struct s { enum inner { IA, IB = 3 } e; union { struct { int deep; } d; } u; };",
    "typedef struct s { \n#pragma baz\n } s;",
    "struct s { \n#pragma one\n int a; \n#pragma two\n int b; };",
    # initializers
    "int arr[] = {1, 2, 3};",
    "int arr[2][2] = { {1, 2}, {3, 4} };",
    "int e[] = {};",
    "int i[1] = { (1, 2) };",
    "struct test { int i; struct test_i_t { int k; } test_i; int j; }; struct test test_var = {.i = 0, .test_i = {.k = 1}, .j = 2};",
    "int array[3] = {[0] = 0, [1] = 1, [1+1] = 2};",
    "struct p pts[] = { [0].x = 1, [1].y.z[2] = 2, .a[1].b = 3, [2] = {1, 2} };",
    "int x = (a = 1, b);",
    "char s[] = \"abc\" \"def\"; char c = 'x'; wchar_t w = L'a'; char *u = u8\"q\";",
    "float f = 1.5e-3f; double d = 0x1.8p3; int h = 0xFFu; int o = 017; long l = 10L; int b = 0b101;",
    "char **foo = (char *[]){ \"x\", \"y\", \"z\" };",
    "int i = ++(int){ 1 };",
    "struct foo_s foo = (struct foo_s){ 1, 2 };",
    "struct foo_s foo = (struct foo_s){ .a = 1, .b = { [0] = 2 } };",
    "int *p = &(int){ 5 }; int q = (int[]){1, 2, 3}[1];",
    # expressions in functions
    "int main(void) { int a, b; (a == 0) ? (b = 1) : (b = 2); }",
    "int main() { int b = (int) f; int c = (int*) f; int a = (int) b + 8; }",
    "int main(void) { int a; int b = a++; int c = ++a; int d = a--; int e = --a; }",
    "int main() { int a; a = 5; ; b = - - a; b = + +a; b = -(-a); b = !~a; return a; }",
    "void f(void) { x = *p; y = &x; z = **pp; w = &*p; v = *&x; *p = 1; *p++ = 2; (*p)++; ++*p; }",
    "void f(void) { a = sizeof(int); b = sizeof a; c = sizeof(a); d = sizeof(int *); e = sizeof(struct s); f = sizeof a + 1; g = sizeof(a + 1); h = sizeof(int[3]); }",
    "void f(void) { a = _Alignof(int); b = _Alignof(struct s *); }",
    "void f(void) { a = b[1]; a = b[i][j]; a = (*b)[1]; a = (b + 1)[2]; a = b[c[d]]; a = f()[1]; a = s.m[1]; }",
    "void f(void) { a = s.m; a = p->m; a = s.m.n; a = p->q->r; a = (*p).m; a = (&s)->m; a = f().m; a = a[1].m; a = (s).m; a = (x ? s : t).m; }",
    "void f(void) { g(); g(1); g(1, 2); g((1, 2)); g(a = 1); (*fp)(1); fp(1)(2); (g)(1); t[1](2); s.cb(3); p->cb(p); (a ? g : h)(1); g(h(i(1))); }",
    "void f(void) { a = (int) b; a = (int) (b + c); a = (int) -b; a = (int) (char) c; a = (int *) p; a = (int (*)(void)) p; a = (struct s *) p; a = (const char * const) p; a = (int) b[1]; a = (int) g(1); a = ((int) b)++; }",
    "void f(void) { a = b ? c : d; a = b ? c : d ? e : f; a = (b ? c : d) ? e : f; a = b ? c ? d : e : f; a = b ? (c, d) : e; a = b ? c = 1 : d; a = (b ? c : d) + 1; a = b + 1 ? c : d; }",
    "void f(void) { a = b = c; a = (b = c); a += b -= c; a *= 2; a /= 2; a %= 2; a <<= 1; a >>= 1; a &= 1; a |= 1; a ^= 1; (a = b) = c; a = (b, c); a = (b = c, d); }",
    "void f(void) { a, b; a = 1, b = 2; (a, b), c; a, (b, c); (a = b, (b = c, c = a)); }",
    "void f(void) { a = -b + c; a = -(b + c); a = !(a && b); a = ~(a | b); a = -b * c; a = (-b)[1]; a = -b[1]; a = -b.m; a = (-b).m; a = &a[1]; a = *f(1); a = !a++; a = (!a)++; a = -a--; a = - -a; a = -(-a); a = +(-a); }",
    "void f(void) { a = (b + c)++; a = (b)++; a = b++ ++; a = ++b++; a = (++b)++; a = ++(b++); a = b++ + ++c; a = b-- - --c; }",
    "void f(void) { a = b + c * d; a = (b + c) * d; a = b * c + d; a = b * (c + d); a = b - c - d; a = b - (c - d); a = b / c / d; a = b / (c / d); a = b % c * d; }",
    "void f(void) { a = b << 1 + 2; a = (b << 1) + 2; a = b < c == d; a = b == c < d; a = b & c == d; a = (b & c) == d; a = b | c ^ d & e; a = b || c && d; a = (b || c) && d; a = b && c || d && e; }",
    "void f(void) { a = b + c + d + e; a = b + (c + (d + e)); a = ((b + c) + d) + e; a = b * c * d * e; a = b * (c * (d * e)); a = b == c != d; a = b >> c << d; a = b >= c <= d > e < f; }",
    "void f(void) { a = (int) b + c; a = (int) (b + c) * d; a = b + (int) c; a = sizeof(a) * 2; a = -b * -c; a = b * -c; a = b - -c; a = b + +c; a = b & &c; a = b * *c; }",
    "void f(void) { a = b[c + d] + e->f * g(h, i + j); a = (b ? c : d) * e; a = b * (c ? d : e); a = (b = c) + d; a = b + (c = d); a = (b, c) + d; a = b + (c, d); }",
    "int x = a*b*c*d; int y = a+(b-c)+d; int z = a-(b+c)*d/(e%f);",
    "int x = a + b + c + d;",
    "int x = (a || b) && (c | d) ^ (e & f) == (g != h) < (i >> j) + (k * l);",
    "int x = a || b && c | d ^ e & f == g < h >> i + j * k;",
    "int x = a * b + c >> d < e == f & g ^ h | i && j || k;",
    "void test(){ (sizeof (0), ({ if (0) ; else ; })); }",
    "void test(){ int x = ({ int y = 1; y + 1; }); x = ({ 1; }) + 2; f(({ a; })); }",
    "void f(void) { a = \"str\"[0]; a = 'c' + 1; a = 1.0 / 2; a = (1)[p]; a = \"a\" \"b\"; }",
    "void f(void) { a = __func__; b = offsetof(struct s, m); c = offsetof(struct s, m.n[1]); }",
    # statements
    "int main() { }",
    "int main(void) { unsigned size; size = sizeof(size); return 0; }",
    "int main(argc, argv) int argc; char** argv; { return 0; }",
    "int knr(a, b, c) int a, b; char *c; { return a; }",
    "int main() { switch (myvar) { case 10: { k = 10; p = k + 1; break; } case 20: case 30: return 20; default: break; } }",
    "void f(void) { switch (x) case 1: y = 1; switch (x) { } switch (x) { default: ; } switch (x) { case 1: case 2: default: case 3: a; b; } switch (x) { y = 1; case 1: if (a) b; else c; } }",
    "void f(void) { switch (x) { case 1 + 2: { } case 'a': ; case A: switch (y) { case 1: break; } break; } }",
    "void x(void) { int i = (9, k); }",
    "void x(void) { for (int i = 0;;) i; }",
    "void f(void) { for (;;) ; for (i = 0; i < 10; i++) { } for (int i = 0, j = 1; i < j; i++, j--) x; for (;;) for (;;) break; for (a, b; c, d; e, f) continue; }",
    "void f(void) { while (1) ; while (a < b) a++; while (a) { b; } while (a) while (b) c; while (a = b, c) ; }",
    "void f(void) { do ; while (1); do a++; while (a < 10); do { a; b; } while (0); do do x; while (a); while (b); do if (a) b; while (c); }",
    "void f(void) { if (a) b; if (a) b; else c; if (a) { b; } else { c; } if (a) if (b) c; else d; if (a) { if (b) c; } else d; if (a) b; else if (c) d; else if (e) f; else g; if (a) ; else ; if (a) { } }",
    "void f(void) { if (a) for (;;) ; else while (1) ; if (a) do x; while (y); else switch (z) { } if (a) return; else goto l; l: ; }",
    "void f(void) { l1: a = 1; l2: l3: b; l4: { c; } l5: if (a) b; l6: ; goto l1; l7: for (;;) ; l8: return; }",
    "void f(void) { { } { { } } { a; { b; { c; } } } }",
    "void f(void) { return; return 1; return (1); return a + b; return (a, b); return a ? b : c; return (int) a; return f(1); return (struct s){1}; }",
    "void f(void) { while (1) { if (a) break; else continue; } }",
    "void f(void) { int a; int b = 1, c; const char *s = \"x\"; static int d[3] = {1}; struct s t = {0}; typedef int I; I i; extern int e; register int r; }",
    "void f(void) { int a; a = 1; int b; b = a; { int c; } int d = a + b; }",
    "void x() { if (i < j) tmp = C[i], C[i] = C[j], C[j] = tmp; if (i <= j) i++, j--; }",
    "void f(int x) { return x; } int main(void) { f((1, 2)); return 0; }",
    "void f() { (0, 0) ? (0, 0) : (0, 0); }",
    "void f() { i = (a, b, c); }",
    "void f(void) { 1; a; \"s\"; a.b; a[1]; f(); (int) a; -a; a + b; a ? b : c; a = b; a, b; (int){1}; sizeof a; }",
    "_Static_assert(sizeof(int) == sizeof(int), \"123\");",
    "int main() { _Static_assert(sizeof(int) == sizeof(int), \"123\"); _Static_assert(1); int a; _Static_assert(2, \"m\"); }",
    "_Static_assert(sizeof(int) == sizeof(int));",
    "struct s { int a; _Static_assert(1, \"in struct\"); int b; };",
    "void f(void) { if (a) _Static_assert(1); }",
    # pragmas
    "#pragma foo\nvoid f() {\n#pragma bar\n i = (a, b, c);\n if (d)\n#pragma qux\n j = e;\n if (d)\n#pragma qux\n#pragma quux\n j = e;\n}\n",
    "#pragma\nint a;\n#pragma   spaced   out   \nint b;\n",
    "#pragma once\n#pragma omp parallel for\nvoid f(void) { for (;;)\n#pragma inner\n ; }\n",
    "_Pragma(\"foo\") int a; void f(void) { _Pragma(\"bar\") a = 1; _Pragma(\"x\" ) }",
    "void f(void) { while (a)\n#pragma w\n b; do\n#pragma d\n c; while (e); switch (x) { case 1:\n#pragma c\n break; default:\n#pragma dd\n ; } l:\n#pragma l\n x; }",
    "void f(void) { if (a)\n#pragma p1\n b; else\n#pragma p2\n c; }",
    "#line 10 \"other.c\"\nint a;\n# 20 \"third.c\" 1\nint b = 1 + ;\n",
    "#line 100\nint a;\nint b;\n#line 5 \"x.h\"\nstruct s { int m; };\n",
    # multi-line / coordinates
    "int\n  a\n   =\n    1\n     +\n      2;\n",
    "void\nf(int a,\n  int b)\n{\n  return\n    a\n    + b;\n}\n",
    "\n\n\tint\ttabbed\t=\t1;\n",
    "/* comment */ int a; // trailing\nint b; /* multi\nline */ int c;",
    # misc programs
    "typedef unsigned int size_t; void *malloc(size_t n); struct l { struct l *n; }; struct l *mk(void) { struct l *p = (struct l *) malloc(sizeof(struct l)); p->n = 0; return p; }",
    "int fact(int n) { return n <= 1 ? 1 : n * fact(n - 1); } int main(int argc, char **argv) { int i; for (i = 0; i < argc; ++i) { printf(\"%d %s\\n\", fact(i), argv[i]); } return 0; }",
    "static const struct { const char *name; int (*fn)(int); } table[] = { { \"a\", fa }, { \"b\", fb }, { 0, 0 } };",
    "int (*get(void))[3] { static int a[3]; return &a; }",
    "int (*getf(int a))(int) { return f; }",
    "void f(int a, ...) { va_list ap; va_start(ap, a); va_end(ap); }",
    "int f(int a; int b) {}",
    # error cases
    "",
    ";",
    "int;",
    "int a",
    "int a = ;",
    "int a = 1 +;",
    "int a[;",
    "int f( { }",
    "void f(void) { a = ; }",
    "void f(void) { a + ; }",
    "void f(void) { (a; }",
    "void f(void) { a b; }",
    "void f(void) { if a b; }",
    "void f(void) { if (a) else b; }",
    "void f(void) { for (;) ; }",
    "void f(void) { do x; while (1) }",
    "void f(void) { switch { } }",
    "void f(void) { case: ; }",
    "void f(void) { return }",
    "void f(void) { goto; }",
    "void f(void) { a ? b; }",
    "void f(void) { a ? : b; }",
    "void f(void) { a[; }",
    "void f(void) { a.; }",
    "void f(void) { a->1; }",
    "void f(void) { f(1,); }",
    "void f(void) { (int) ; }",
    "void f(void) { sizeof; }",
    "void f(void) { sizeof(int; }",
    "void f(void) { ++; }",
    "void f(void) { a = (int){; }",
    "void f(void) { x = {1}; }",
    "void f(void) {",
    "void f(void) } ",
    "struct { int a };",
    "struct s { int; };",
    "struct s { int a : ; };",
    "enum { a b };",
    "enum { , };",
    "enum e { a = };",
    "int a[] = { .x 1 };",
    "int a[] = { [1 = 2 };",
    "int a = 1 $ 2;",
    "int a = 'ab",
    "char *s = \"unterminated;",
    "int a = 09;",
    "int a = 1.2.3;",
    "int a = 0x;",
    "typedef int T; T T;",
    "typedef int T; int T;",
    "int x; typedef int x;",
    "void f(void) { typedef int T; T = 1; }",
    "typedef int T; void f(T T) { }",
    "typedef int T; void f(void) { int T; T = 1; }",
    "_Static_assert();",
    "_Static_assert(1,);",
    "_Alignas() int a;",
    "_Atomic() x;",
    "int f(int a, int a);",
    "int f(...);",
    "int f(int, ..., int);",
    "int f(a, b) int a; { }",
    "long long long x;",
    "int int x;",
    "unsigned float x;",
    "#pragma",
    "#line",
    "#line abc",
    "# 1",
    "#define X 1",
    "#include <stdio.h>",
    "_Pragma(1) int a;",
    "_Pragma(\"a\"",
    "void f(void) { offsetof(int); }",
    "void f(void) { offsetof(struct s, ); }",
]

BINOPS = ["||", "&&", "|", "^", "&", "==", "!=", ">", ">=", "<", "<=", ">>", "<<", "+", "-", "*", "/", "%"]
ASSIGN_OPS = ["=", "+=", "-=", "*=", "/=", "%=", "<<=", ">>=", "&=", "|=", "^="]
UNOPS = ["-", "+", "!", "~", "*", "&", "++", "--", "sizeof"]
ATOMS = ["a", "1", "a[1]", "a.b", "a->b", "f(1)", "(a + 1)", "-a", "a++", "(int) a", "(a ? b : c)", "(a = 1)", "(a, b)", "sizeof a", "(int){1}", "*p", "({ 1; })"]


def generated_snippets():
    res = []
    # All ordered pairs of binary operators in the three groupings.
    for op1 in BINOPS:
        stmts = []
        for op2 in BINOPS:
            stmts.append("x = a %s b %s c;" % (op1, op2))
            stmts.append("x = (a %s b) %s c;" % (op1, op2))
            stmts.append("x = a %s (b %s c);" % (op1, op2))
        res.append(("binpair %s" % op1, "void f(void) { %s }" % " ".join(stmts)))
    # Every binary operator with every kind of operand on either side.
    for op in BINOPS:
        stmts = []
        for atom in ATOMS:
            stmts.append("x = %s %s y;" % (atom, op))
            stmts.append("x = y %s %s;" % (op, atom))
        res.append(("binatom %s" % op, "void f(void) { %s }" % " ".join(stmts)))
    # Unary operators over every kind of operand; postfix too.
    for op in UNOPS:
        stmts = []
        for atom in ATOMS:
            stmts.append("x = %s %s;" % (op, atom))
            stmts.append("x = %s(%s);" % (op, atom))
        res.append(("unop %s" % op, "void f(void) { %s }" % " ".join(stmts)))
    for atom in ATOMS:
        res.append((
            "postfix %s" % atom,
            "void f(void) { x = %s++; x = %s--; x = %s[i]; x = %s.m; x = %s->m; x = %s(1, 2); x = (T) %s; x = sizeof(%s); x = %s ? %s : %s; x = %s, %s; g(%s, %s); }"
            % ((atom,) * 15),
        ))
    # Assignment operators.
    for op in ASSIGN_OPS:
        res.append((
            "assign %s" % op,
            "void f(void) { a %s b; a %s b %s c; a %s (b %s c); *p %s 1; a[i] %s b + c; s.m %s b ? c : d; a %s (b, c); a %s (int) b; }"
            % ((op,) * 10),
        ))
    # Deep left / right nesting.
    for op in ("+", "-", "*", "&&", "<<", "=="):
        left = "a"
        right = "a"
        for i in range(12):
            left = "(%s %s b%d)" % (left, op, i)
            right = "(b%d %s %s)" % (i, op, right)
        res.append(("deep %s" % op, "int x = %s; int y = %s;" % (left, right)))
    src = "1"
    for _ in range(30):
        src = "sizeof(" + src + ")"
    res.append(("nested sizeof", "int x = " + src + ";"))
    # Declarator shapes: combinations of pointer / array / function modifiers.
    quals = ["", "const ", "volatile ", "const volatile ", "_Atomic ", "restrict "]
    decls = []
    for q in quals:
        decls.append("int * %sp;" % q)
        decls.append("int * %s* %spp;" % (q, q))
        decls.append("int (* %spa)[3];" % q)
        decls.append("int * %sap[3];" % q)
        decls.append("int (* %spf)(void);" % q)
        decls.append("int * %sfp(void);" % q)
        decls.append("int (* %sapf[2])(int);" % q)
        decls.append("int (*(* %sppa)[2])[3];" % q)
        decls.append("%sint * %scq;" % (q if q != "restrict " else "", q))
    for i, d in enumerate(decls):
        res.append(("declarator %d" % i, d))
    res.append(("declarators all", " ".join(d.replace("p;", "p%d;" % i) for i, d in enumerate(decls))))
    # Abstract declarators in casts / sizeof / parameters.
    abstr = ["int", "int *", "int **", "int * const", "int * const *", "int [3]", "int [3][4]", "int *[3]", "int (*)[3]",
             "int (*)(void)", "int (*)(int, char *)", "int *(*)(void)", "int (*[2])(void)", "int (*(*)(void))[3]",
             "const int", "struct s", "struct s *", "union u *", "enum e", "unsigned long", "void *", "char * restrict",
             "int (* const)(int)", "int (*)(int (*)(void))", "T", "T *", "_Atomic int *", "_Atomic(int) *"]
    for i, a in enumerate(abstr):
        res.append((
            "abstract %d" % i,
            "typedef int T; void f(void) { x = (%s) y; x = sizeof(%s); x = _Alignof(%s); } void g(%s); void h(%s, %s);"
            % (a, a, a, a, a, a),
        ))
    # Statement nesting combinations.
    bodies = ["x;", ";", "{ }", "{ x; y; }", "if (a) x;", "if (a) x; else y;", "while (a) x;", "for (;;) x;",
              "do x; while (a);", "switch (a) { case 1: x; }", "return;", "break;", "continue;", "goto l;", "l: x;",
              "int d;", "_Pragma(\"p\") x;"]
    wrappers = ["if (c) %s", "if (c) %s else z;", "if (c) z; else %s", "while (c) %s", "for (;;) %s", "do %s while (c);",
                "switch (c) %s", "switch (c) { case 1: %s default: %s }", "l0: %s", "{ %s }", "{ { %s } %s }"]
    for wi, w in enumerate(wrappers):
        stmts = []
        for b in bodies:
            stmts.append(w.replace("%s", b))
        res.append(("stmtnest %d all" % wi, "void f(void) { %s }" % " ".join(stmts)))
        for bi, b in enumerate(bodies):
            res.append(("stmtnest %d %d" % (wi, bi), "void f(void) { %s }" % w.replace("%s", b)))
    return res


def test_suite_snippets():
    """String literals of tests/test_c_generator.py that look like C."""
    path = "tests/test_c_generator.py"
    with open(path) as f:
        mod = pyast.parse(f.read())
    res = []
    seen = set()
    for node in pyast.walk(mod):
        if isinstance(node, pyast.Constant) and isinstance(node.value, str):
            s = node.value
            if (";" in s or "{" in s or "#" in s) and s not in seen and "!r" not in s:
                seen.add(s)
                res.append(((getattr(node, "lineno", 0), getattr(node, "col_offset", 0)), s))
    res.sort()
    return [("testsuite %d:%d" % pos, s) for pos, s in res]


# ---------------------------------------------------------------------------
# Part 3: direct generator calls on hand-built or partial ASTs
# ---------------------------------------------------------------------------
def direct(label, thunk):
    out("-" * 70)
    out("DIRECT %s" % label)
    try:
        r = thunk()
    except Exception as e:  # noqa: BLE001
        out(describe_exc(e))
    else:
        out("%r" % (r,))


def direct_cases():
    A = c_ast
    G = c_generator.CGenerator
    ID = A.ID
    C = lambda v: A.Constant("int", v)  # noqa: E731

    def both(label, mk):
        for rp in (False, True):
            def thunk():
                g = G(reduce_parentheses=rp)
                r = mk(g)
                return (r, g.indent_level)
            direct("%s rp=%r" % (label, rp), thunk)

    def tdecl(name, names=("int",), quals=None):
        return A.TypeDecl(name, quals or [], None, A.IdentifierType(list(names)))

    def decl(name, type, **kw):
        d = dict(name=name, quals=[], align=[], storage=[], funcspec=[], type=type, init=None, bitsize=None)
        d.update(kw)
        return A.Decl(**d)

    both("generic_visit None", lambda g: g.generic_visit(None))
    both("visit None", lambda g: g.visit(None))
    both("generic_visit BinaryOp", lambda g: g.generic_visit(A.BinaryOp("+", ID("a"), ID("b"))))
    both("constructor positional", lambda g: (G(True).reduce_parentheses, G().reduce_parentheses, G(0).reduce_parentheses))
    both("make_indent", lambda g: (g._make_indent(), setattr(g, "indent_level", 5), g._make_indent()))
    both("Pragma None", lambda g: g.visit(A.Pragma(None)))
    both("Pragma empty", lambda g: g.visit(A.Pragma("")))
    both("Pragma text", lambda g: g.visit(A.Pragma("omp x")))
    both("Pragma node", lambda g: g.visit(A.Pragma(A.Constant("string", '"x"'))))
    both("FuncCall no args", lambda g: g.visit(A.FuncCall(ID("f"), None)))
    both("FuncCall empty exprlist", lambda g: g.visit(A.FuncCall(ID("f"), A.ExprList([]))))
    both("FuncCall complex callee", lambda g: g.visit(A.FuncCall(A.UnaryOp("*", ID("fp")), A.ExprList([C("1"), A.ExprList([C("2"), C("3")])]))))
    both("FuncCall initlist arg", lambda g: g.visit(A.FuncCall(ID("f"), A.ExprList([A.InitList([C("1")])]))))
    for op in ("sizeof", "p++", "p--", "-", "!", "_Alignof", "weird"):
        for operand in (ID("a"), A.BinaryOp("+", ID("a"), ID("b")), A.UnaryOp("-", ID("a")), A.Typename(None, [], None, tdecl(None)),
                        A.ExprList([ID("a"), ID("b")]), A.InitList([C("1")])):
            both("UnaryOp %s %s" % (op, type(operand).__name__), lambda g, op=op, operand=operand: g.visit(A.UnaryOp(op, operand)))
    ops = ["||", "&&", "|", "==", "<", "<<", "+", "*", "%"]
    for o1 in ops:
        for o2 in ops:
            both("BinaryOp (%s) %s" % (o2, o1), lambda g, o1=o1, o2=o2: (
                g.visit(A.BinaryOp(o1, A.BinaryOp(o2, ID("a"), ID("b")), ID("c"))),
                g.visit(A.BinaryOp(o1, ID("a"), A.BinaryOp(o2, ID("b"), ID("c")))),
                g.visit(A.BinaryOp(o1, A.BinaryOp(o2, ID("a"), ID("b")), A.BinaryOp(o2, ID("c"), ID("d")))),
            ))
    both("BinaryOp unknown outer op", lambda g: g.visit(A.BinaryOp("@", A.BinaryOp("+", ID("a"), ID("b")), ID("c"))))
    both("BinaryOp unknown inner op left", lambda g: g.visit(A.BinaryOp("+", A.BinaryOp("@", ID("a"), ID("b")), ID("c"))))
    both("BinaryOp unknown inner op right", lambda g: g.visit(A.BinaryOp("+", ID("c"), A.BinaryOp("@", ID("a"), ID("b")))))
    both("BinaryOp unknown op simple operands", lambda g: g.visit(A.BinaryOp("@", ID("a"), C("1"))))
    both("BinaryOp operands of many kinds", lambda g: [
        g.visit(A.BinaryOp("+", x, x)) for x in (
            ID("a"), C("1"), A.ArrayRef(ID("a"), C("1")), A.StructRef(ID("a"), ".", ID("b")), A.FuncCall(ID("f"), None),
            A.UnaryOp("-", ID("a")), A.UnaryOp("p++", ID("a")), A.TernaryOp(ID("a"), ID("b"), ID("c")),
            A.Assignment("=", ID("a"), ID("b")), A.Cast(A.Typename(None, [], None, tdecl(None)), ID("a")),
            A.ExprList([ID("a"), ID("b")]), A.InitList([C("1")]), A.Compound([ID("a")]), A.Compound(None),
            A.CompoundLiteral(A.Typename(None, [], None, tdecl(None)), A.InitList([C("1")])),
        )])
    both("Assignment nested", lambda g: (
        g.visit(A.Assignment("=", ID("a"), A.Assignment("+=", ID("b"), ID("c")))),
        g.visit(A.Assignment("=", A.Assignment("=", ID("a"), ID("b")), ID("c"))),
        g.visit(A.Assignment("=", ID("a"), A.ExprList([ID("b"), ID("c")]))),
        g.visit(A.Assignment("=", ID("a"), A.InitList([C("1"), C("2")]))),
        g.visit(A.Assignment("=", ID("a"), A.Compound([ID("b")]))),
    ))
    both("ArrayRef/StructRef complex base", lambda g: (
        g.visit(A.ArrayRef(A.BinaryOp("+", ID("a"), C("1")), C("2"))),
        g.visit(A.ArrayRef(A.ExprList([ID("a"), ID("b")]), A.ExprList([C("1"), C("2")]))),
        g.visit(A.StructRef(A.UnaryOp("*", ID("p")), ".", ID("m"))),
        g.visit(A.StructRef(A.Cast(A.Typename(None, [], None, A.PtrDecl([], tdecl(None, ("struct_t",)))), ID("p")), "->", ID("m"))),
    ))
    both("Cast", lambda g: (
        g.visit(A.Cast(A.Typename(None, [], None, tdecl(None)), ID("a"))),
        g.visit(A.Cast(A.Typename(None, ["const"], None, A.PtrDecl(["const"], tdecl(None, ("char",), ["const"]))), A.BinaryOp("+", ID("a"), ID("b")))),
        g.visit(A.Cast(A.Typename("named", [], None, tdecl("named")), A.InitList([C("1")]))),
    ))
    both("TernaryOp kinds", lambda g: (
        g.visit(A.TernaryOp(ID("a"), ID("b"), ID("c"))),
        g.visit(A.TernaryOp(A.ExprList([ID("a"), ID("b")]), A.InitList([C("1")]), A.Compound([ID("x")]))),
        g.visit(A.TernaryOp(A.TernaryOp(ID("a"), ID("b"), ID("c")), A.Assignment("=", ID("a"), ID("b")), A.BinaryOp("+", ID("a"), ID("b")))),
    ))
    both("ExprList/InitList", lambda g: (
        g.visit(A.ExprList([])), g.visit(A.InitList([])),
        g.visit(A.ExprList([ID("a")])), g.visit(A.InitList([ID("a")])),
        g.visit(A.ExprList([ID("a"), A.ExprList([ID("b"), ID("c")]), A.InitList([C("1")]), A.Compound([ID("d")])])),
        g.visit(A.InitList([ID("a"), A.ExprList([ID("b"), ID("c")]), A.InitList([C("1")]), A.Compound([ID("d")]),
                            A.NamedInitializer([ID("m"), C("1"), ID("n")], A.InitList([C("2")]))])),
    ))
    both("NamedInitializer", lambda g: (
        g.visit(A.NamedInitializer([], C("1"))),
        g.visit(A.NamedInitializer([ID("a")], C("1"))),
        g.visit(A.NamedInitializer([C("0"), ID("a"), A.BinaryOp("+", C("1"), C("2"))], A.ExprList([C("1"), C("2")]))),
        g.visit(A.NamedInitializer([A.StructRef(ID("a"), ".", ID("b"))], A.Compound([ID("x")]))),
    ))
    both("Decl variants", lambda g: (
        g.visit(decl("a", tdecl("a"))),
        g.visit(decl("a", tdecl("a"), init=C("1"))),
        g.visit(decl("a", tdecl("a"), bitsize=C("3"))),
        g.visit(decl("a", tdecl("a"), bitsize=C("3"), init=A.InitList([C("1")]))),
        g.visit(decl("a", tdecl("a"), init=A.ExprList([C("1"), C("2")]))),
        g.visit(decl("a", tdecl("a"), storage=["static", "extern"], funcspec=["inline", "_Noreturn"], quals=["const"])),
        g.visit(decl("a", tdecl("a"), align=[A.Alignas(C("8")), A.Alignas(A.Typename(None, [], None, tdecl(None, ("long", "long"))))])),
        g.visit(decl(None, tdecl(None))),
        g.visit(decl(None, A.Struct("s", None))),
        g.visit(decl(None, A.Struct("s", []))),
        g.visit_Decl(decl("a", tdecl("a"), init=C("1"), bitsize=C("2")), no_type=True),
        g.visit_Decl(decl("a", tdecl("a")), True),
        g.visit_Decl(decl(None, tdecl(None), init=C("1")), no_type=False),
        g._generate_decl(decl("a", tdecl("a"), storage=["static"])),
    ))
    both("Decl no_type None name", lambda g: g.visit_Decl(decl(None, tdecl(None), init=C("1")), no_type=True))
    both("DeclList", lambda g: (
        g.visit(A.DeclList([decl("a", tdecl("a"))])),
        g.visit(A.DeclList([decl("a", tdecl("a"), init=C("1")), decl("b", A.PtrDecl([], tdecl("b")), init=C("2")), decl("c", tdecl("c"))])),
    ))
    both("DeclList empty", lambda g: g.visit(A.DeclList([])))
    both("Typedef", lambda g: (
        g.visit(A.Typedef("T", [], ["typedef"], tdecl("T"))),
        g.visit(A.Typedef("T", ["const"], ["typedef", "static"], A.PtrDecl(["const"], tdecl("T", ("char",), ["const"])))),
        g.visit(A.Typedef("T", [], [], A.ArrayDecl(tdecl("T"), C("3"), []))),
        g.visit(A.Typedef("T", [], ["typedef"], A.FuncDecl(None, tdecl("T")))),
    ))
    both("Enum", lambda g: (
        g.visit(A.Enum("e", None)),
        g.visit(A.Enum(None, None)),
        g.visit(A.Enum("e", A.EnumeratorList([A.Enumerator("a", None)]))),
        g.visit(A.Enum(None, A.EnumeratorList([A.Enumerator("a", None), A.Enumerator("b", C("2")), A.Enumerator("c", A.BinaryOp("+", ID("b"), C("1")))]))),
        g.visit(A.Enum("e", A.EnumeratorList([]))),
        g.visit(A.Enumerator("x", None)), g.visit(A.Enumerator("x", C("0"))), g.visit(A.Enumerator("x", "")),
        g.visit(A.EnumeratorList([A.Enumerator("a", None), A.Enumerator("b", C("1"))])),
    ))
    both("Struct/Union", lambda g: (
        g.visit(A.Struct("s", None)), g.visit(A.Struct(None, None)), g.visit(A.Struct("s", [])), g.visit(A.Struct(None, [])),
        g.visit(A.Union("u", None)), g.visit(A.Union("u", [])),
        g.visit(A.Struct("s", [decl("a", tdecl("a")), decl("b", tdecl("b"), bitsize=C("2")), A.Pragma("pack"),
                               decl(None, A.Union(None, [decl("c", tdecl("c"))])), A.StaticAssert(C("1"), None)])),
        g.visit(A.Union("u", (decl("a", tdecl("a")),))),
    ))
    both("nested struct indentation", lambda g: (
        setattr(g, "indent_level", 4),
        g.visit(A.Struct("s", [decl("e", A.TypeDecl("e", [], None, A.Enum("in", A.EnumeratorList([A.Enumerator("a", None), A.Enumerator("b", None)]))))])),
    ))

    def sue(name, node):
        return lambda g: g._generate_struct_union_enum(node, name)

    both("sue bogus name", sue("", A.Struct("TestStruct", [])))
    both("sue bogus name kw", lambda g: g._generate_struct_union_enum(n=A.Struct("TestStruct", []), name=""))
    both("sue class name", sue("class", A.Enum("E", None)))
    both("sue struct on Enum", sue("struct", A.Enum("E", None)))
    both("sue enum on Struct", sue("enum", A.Struct("S", None)))
    both("sue union on Struct", sue("union", A.Struct("S", [decl("a", tdecl("a"))])))
    both("sue struct on Union", sue("struct", A.Union("U", [])))
    both("sue enum kw", lambda g: g._generate_struct_union_enum(name="enum", n=A.Enum("E", A.EnumeratorList([A.Enumerator("a", None)]))))
    both("struct body helpers", lambda g: (
        g._generate_struct_union_body([]), g._generate_struct_union_body([decl("a", tdecl("a")), A.Pragma("p")]),
        g._generate_enum_body([]), g._generate_enum_body([A.Enumerator("a", None)]),
        g._generate_enum_body([A.Enumerator("a", C("1")), A.Enumerator("b", None)]),
    ))
    both("Alignas", lambda g: (g.visit(A.Alignas(C("8"))), g.visit(A.Alignas(A.Typename(None, [], None, tdecl(None))))))
    body = A.Compound([A.Return(C("0"))])
    fdecl = decl("f", A.FuncDecl(A.ParamList([decl("a", tdecl("a")), A.EllipsisParam()]), tdecl("f")))
    both("FuncDef", lambda g: (
        g.visit(A.FuncDef(fdecl, None, body)),
        g.visit(A.FuncDef(fdecl, [], body)),
        g.visit(A.FuncDef(decl("f", A.FuncDecl(A.ParamList([ID("a"), ID("b")]), tdecl("f"))), [decl("a", tdecl("a")), decl("b", A.PtrDecl([], tdecl("b", ("char",))))], A.Compound(None))),
    ))
    both("FuncDef resets indent", lambda g: (setattr(g, "indent_level", 6), g.visit(A.FuncDef(fdecl, None, body)), g.indent_level))
    both("FileAST", lambda g: (
        g.visit(A.FileAST([])),
        g.visit(A.FileAST([A.Pragma("p"), decl("a", tdecl("a")), A.FuncDef(fdecl, None, body), A.Typedef("T", [], ["typedef"], tdecl("T")),
                           A.StaticAssert(C("1"), A.Constant("string", '"m"')), A.Pragma(A.Constant("string", '"q"')), A.EmptyStatement()])),
    ))
    both("Compound", lambda g: (
        g.visit(A.Compound(None)), g.visit(A.Compound([])), g.visit(A.Compound([A.Compound([A.Compound(None)]), ID("a")])),
        g.indent_level,
    ))
    both("Compound indent 3", lambda g: (setattr(g, "indent_level", 3), g.visit(A.Compound([ID("a"), A.Compound([ID("b")])]))))
    both("CompoundLiteral", lambda g: g.visit(A.CompoundLiteral(A.Typename(None, [], None, A.ArrayDecl(tdecl(None), None, [])), A.InitList([C("1"), C("2")]))))
    both("ParamList", lambda g: (g.visit(A.ParamList([])), g.visit(A.ParamList([decl("a", tdecl("a")), A.Typename(None, [], None, tdecl(None)), A.EllipsisParam(), ID("k")]))))
    both("Return/Break/Continue/Goto/Label/Empty", lambda g: (
        g.visit(A.Return(None)), g.visit(A.Return(C("1"))), g.visit(A.Return(A.ExprList([C("1"), C("2")]))), g.visit(A.Break()), g.visit(A.Continue()),
        g.visit(A.Goto("l")), g.visit(A.Label("l", A.EmptyStatement())), g.visit(A.Label("l", ID("a"))), g.visit(A.Label("l", A.Compound(None))),
        g.visit(A.Label("l", A.If(ID("a"), ID("b"), None))), g.visit(A.EmptyStatement()), g.visit(A.EllipsisParam()),
    ))
    both("If", lambda g: (
        g.visit(A.If(None, A.EmptyStatement(), None)),
        g.visit(A.If(ID("a"), ID("b"), None)),
        g.visit(A.If(ID("a"), ID("b"), ID("c"))),
        g.visit(A.If(ID("a"), A.Compound([ID("b")]), A.Compound(None))),
        g.visit(A.If(ID("a"), A.If(ID("b"), ID("c"), ID("d")), A.If(ID("e"), ID("f"), None))),
        g.visit(A.If(A.ExprList([ID("a"), ID("b")]), A.Return(None), A.Break())),
    ))
    both("If None iftrue", lambda g: g.visit(A.If(ID("a"), None, None)))
    both("For", lambda g: (
        g.visit(A.For(None, None, None, A.EmptyStatement())),
        g.visit(A.For(ID("a"), None, None, A.EmptyStatement())),
        g.visit(A.For(None, ID("b"), None, A.EmptyStatement())),
        g.visit(A.For(None, None, ID("c"), A.EmptyStatement())),
        g.visit(A.For(A.DeclList([decl("i", tdecl("i"), init=C("0")), decl("j", tdecl("j"))]), A.BinaryOp("<", ID("i"), C("3")), A.UnaryOp("p++", ID("i")), A.Compound([ID("x")]))),
        g.visit(A.For(A.ExprList([ID("a"), ID("b")]), A.ExprList([ID("c"), ID("d")]), A.ExprList([ID("e"), ID("f")]), A.For(None, None, None, ID("x")))),
    ))
    both("While/DoWhile/Switch", lambda g: (
        g.visit(A.While(None, A.EmptyStatement())), g.visit(A.While(ID("a"), ID("b"))), g.visit(A.While(ID("a"), A.Compound([ID("b")]))),
        g.visit(A.DoWhile(None, A.EmptyStatement())), g.visit(A.DoWhile(ID("a"), ID("b"))), g.visit(A.DoWhile(ID("a"), A.Compound([ID("b")]))),
        g.visit(A.DoWhile(ID("a"), A.DoWhile(ID("b"), ID("c")))),
        g.visit(A.Switch(ID("a"), A.Compound([A.Case(C("1"), [ID("x"), A.Break()]), A.Case(C("2"), []), A.Default([A.Compound([ID("y")])]), A.Default([])]))),
        g.visit(A.Switch(ID("a"), A.Case(C("1"), [ID("x")]))),
        g.visit(A.Case(C("1"), [A.Case(C("2"), [ID("x")])])), g.visit(A.Default([A.If(ID("a"), ID("b"), None), A.Pragma("p")])),
    ))
    both("StaticAssert", lambda g: (
        g.visit(A.StaticAssert(C("1"), None)), g.visit(A.StaticAssert(A.BinaryOp("==", C("1"), C("1")), A.Constant("string", '"m"'))),
    ))
    both("StaticAssert None cond", lambda g: g.visit(A.StaticAssert(None, None)))
    both("Typename", lambda g: (
        g.visit(A.Typename(None, [], None, tdecl(None))), g.visit(A.Typename("n", ["const"], None, A.PtrDecl([], tdecl("n")))),
        g.visit(A.Typename(None, [], None, A.FuncDecl(A.ParamList([A.Typename(None, [], None, tdecl(None, ("void",)))]), A.PtrDecl([], tdecl(None))))),
    ))
    both("IdentifierType", lambda g: (g.visit(A.IdentifierType([])), g.visit(A.IdentifierType(["unsigned", "long"])), g._generate_type(A.IdentifierType(["unsigned", "long"])), g._generate_type(A.IdentifierType([]))))

    # _generate_type on modifier chains
    def chain(kinds, name="x", quals=()):
        t = tdecl(name)
        for k in reversed(kinds):
            if k == "p":
                t = A.PtrDecl([], t)
            elif k == "q":
                t = A.PtrDecl(list(quals) or ["const"], t)
            elif k == "a":
                t = A.ArrayDecl(t, C("3"), [])
            elif k == "A":
                t = A.ArrayDecl(t, None, [])
            elif k == "s":
                t = A.ArrayDecl(t, C("3"), ["static", "const"])
            elif k == "S":
                t = A.ArrayDecl(t, None, ["restrict"])
            elif k == "f":
                t = A.FuncDecl(A.ParamList([A.Typename(None, [], None, tdecl(None, ("void",)))]), t)
            elif k == "F":
                t = A.FuncDecl(None, t)
        return t

    import itertools
    for n in (1, 2, 3):
        for kinds in itertools.product("pqaAsSfF" if n < 3 else "pqaf", repeat=n):
            k = "".join(kinds)
            both("type chain %s" % k, lambda g, k=k: (
                g._generate_type(chain(k)),
                g._generate_type(chain(k), emit_declname=False),
                g._generate_type(chain(k, name=None)),
                g._generate_type(chain(k, name="")),
                g.visit(chain(k)),
                g.visit(decl("x", chain(k))),
                g.visit(A.Typename(None, [], None, chain(k, name=None))),
                g._generate_type(chain(k), [A.PtrDecl([], None)]),
                g._generate_type(chain(k), [A.PtrDecl(["volatile"], None)], False),
                g._generate_type(chain(k), modifiers=[A.ArrayDecl(None, None, [])], emit_declname=True),
            ))
    both("type chain long", lambda g: (
        g._generate_type(chain("pqpafpqsSFpa")), g._generate_type(chain("pqpafpqsSFpa", name=None)),
        g._generate_type(chain("qqq", quals=("const", "volatile", "_Atomic"))),
        g._generate_type(chain("qqq", name=None, quals=("const", "volatile"))),
    ))
    both("_generate_type on odd nodes", lambda g: (
        g._generate_type(A.Struct("s", None)), g._generate_type(A.Enum("e", None)), g._generate_type(ID("a")),
        g._generate_type(A.Typename(None, [], None, tdecl("keepname")), emit_declname=False),
        g._generate_type(A.Typename(None, [], None, tdecl("keepname")), [A.PtrDecl([], None)]),
        g._generate_type(A.TypeDecl("v", ["const", "volatile"], None, A.Struct("s", [decl("m", tdecl("m"))]))),
        g._generate_type(A.TypeDecl("v", [], None, A.Union("u", None)), [A.ArrayDecl(None, C("2"), []), A.PtrDecl([], None)]),
        g._generate_type(tdecl("v"), [A.PtrDecl([], None), A.FuncDecl(None, None), A.PtrDecl(["const"], None), A.ArrayDecl(None, None, ["static"])]),
        g._generate_type(tdecl("v"), [ID("junk"), A.PtrDecl([], None)]),
    ))
    both("_generate_type Decl node", lambda g: g._generate_type(decl("a", tdecl("a"))))
    both("_generate_type Decl of Decl", lambda g: g._generate_type(decl("o", decl("i", tdecl("i"), storage=["static"]))))
    both("_generate_type None", lambda g: g._generate_type(None))
    both("_generate_type default modifiers unchanged", lambda g: (
        g._generate_type(chain("pa")), c_generator.CGenerator._generate_type.__defaults__,
    ))

    # _generate_stmt on every node kind, with and without indent
    stmts = [
        decl("a", tdecl("a")), A.Assignment("=", ID("a"), C("1")), A.Cast(A.Typename(None, [], None, tdecl(None)), ID("a")),
        A.UnaryOp("p++", ID("a")), A.BinaryOp("+", ID("a"), ID("b")), A.TernaryOp(ID("a"), ID("b"), ID("c")), A.FuncCall(ID("f"), None),
        A.ArrayRef(ID("a"), C("1")), A.StructRef(ID("a"), ".", ID("b")), C("1"), ID("a"), A.Typedef("T", [], ["typedef"], tdecl("T")),
        A.ExprList([ID("a"), ID("b")]), A.CompoundLiteral(A.Typename(None, [], None, tdecl(None)), A.InitList([C("1")])),
        A.Compound([ID("a")]), A.Compound(None), A.If(ID("a"), ID("b"), ID("c")), A.If(ID("a"), A.Compound(None), None),
        A.While(ID("a"), ID("b")), A.DoWhile(ID("a"), ID("b")), A.For(None, None, None, ID("b")), A.Switch(ID("a"), A.Compound(None)),
        A.Case(C("1"), [ID("a")]), A.Default([ID("a")]), A.Label("l", ID("a")), A.Goto("l"), A.Return(None), A.Break(), A.Continue(),
        A.EmptyStatement(), A.Pragma("p"), A.Pragma(A.Constant("string", '"p"')), A.StaticAssert(C("1"), None), A.InitList([C("1")]),
        A.DeclList([decl("a", tdecl("a"))]), A.Struct("s", []), A.Enum("e", None), A.FuncDef(fdecl, None, body),
        A.NamedInitializer([ID("a")], C("1")), A.Typename(None, [], None, tdecl(None)), A.IdentifierType(["int"]), A.Alignas(C("4")),
        A.EllipsisParam(), A.Enumerator("a", None), A.ParamList([]), A.FileAST([]), tdecl("t"), A.PtrDecl([], tdecl("t")),
    ]
    for st in stmts:
        both("_generate_stmt %s" % type(st).__name__, lambda g, st=st: (
            g._generate_stmt(st), g._generate_stmt(st, add_indent=True), g._generate_stmt(st, True), g._generate_stmt(n=st, add_indent=False),
            setattr(g, "indent_level", 4), g._generate_stmt(st), g._generate_stmt(st, add_indent=True), g.indent_level,
        ))
    both("_generate_stmt None", lambda g: g._generate_stmt(None))
    both("_generate_stmt None indent", lambda g: g._generate_stmt(None, add_indent=True))

    # parenthesisation helpers
    both("_parenthesize_if", lambda g: (
        g._parenthesize_if(ID("a"), lambda n: True), g._parenthesize_if(ID("a"), lambda n: False),
        g._parenthesize_if(ID("a"), lambda n: 1), g._parenthesize_if(ID("a"), lambda n: ""), g._parenthesize_if(ID("a"), lambda n: None),
        g._parenthesize_if(n=A.ExprList([ID("a")]), condition=lambda n: True), g._parenthesize_if(A.InitList([ID("a")]), lambda n: False),
        g._parenthesize_unless_simple(ID("a")), g._parenthesize_unless_simple(A.UnaryOp("-", ID("a"))), g._parenthesize_unless_simple(n=A.ExprList([ID("a")])),
    ))
    both("_parenthesize_if raising condition", lambda g: g._parenthesize_if(ID("a"), lambda n: 1 // 0))
    both("_parenthesize_if visit fails first", lambda g: g._parenthesize_if(A.Goto(None), lambda n: 1 // 0))
    both("_is_simple_node", lambda g: [
        (type(x).__name__, g._is_simple_node(x)) for x in (
            ID("a"), C("1"), A.ArrayRef(ID("a"), C("1")), A.StructRef(ID("a"), ".", ID("b")), A.FuncCall(ID("f"), None),
            A.UnaryOp("-", ID("a")), A.BinaryOp("+", ID("a"), ID("b")), A.TernaryOp(ID("a"), ID("b"), ID("c")), A.Cast(None, ID("a")),
            A.ExprList([]), A.InitList([]), A.Compound(None), A.CompoundLiteral(None, None), A.Assignment("=", ID("a"), ID("b")), None, "str", 1,
        )])
    both("_is_simple_node via class", lambda g: (
        c_generator.CGenerator._is_simple_node(g, ID("a")), c_generator.CGenerator._is_simple_node(g, A.Break()),
        g._is_simple_node(n=ID("a")),
    ))
    both("_visit_expr", lambda g: (
        g._visit_expr(ID("a")), g._visit_expr(A.InitList([C("1")])), g._visit_expr(A.ExprList([C("1"), C("2")])),
        g._visit_expr(A.Compound([ID("a")])), g._visit_expr(A.Compound(None)), g._visit_expr(n=A.BinaryOp("+", ID("a"), ID("b"))),
    ))
    both("_visit_expr None", lambda g: g._visit_expr(None))
    both("precedence_map", lambda g: (sorted(g.precedence_map.items()), g.precedence_map is c_generator.CGenerator.precedence_map))

    # subclasses overriding helpers keep working the same way
    class Tabs(G):
        def _make_indent(self):
            return "\t" * (self.indent_level // 2)

    class NoSimple(G):
        def _is_simple_node(self, n):
            return False

    class AllSimple(G):
        def _is_simple_node(self, n):
            return True

    class Loud(G):
        def visit_ID(self, n):
            return n.name.upper()

        def _visit_expr(self, n):
            return "<" + super()._visit_expr(n) + ">"

    class Prec(G):
        precedence_map = dict(G.precedence_map, **{"+": 9, "*": 8})

    class Bodies(G):
        def _generate_struct_union_body(self, members):
            return "/*S*/" + super()._generate_struct_union_body(members)

        def _generate_enum_body(self, members):
            return "/*E*/" + super()._generate_enum_body(members)

        def _generate_stmt(self, n, add_indent=False):
            return "@" + super()._generate_stmt(n, add_indent)

        def _generate_decl(self, n):
            return "D:" + super()._generate_decl(n)

    src = ("struct s { int a; union { int b; }; enum { P, Q = 2 } e; }; int (*fp[2])(int a, ...); "
           "int f(int x) { if (x) { while (x + 1 * 2) x--; } else for (;;) { switch (x) { case 1: return -(x + 1) * (x - 2) / 3; } } return g(x)[1].m++ ; }")
    tree = c_parser.CParser().parse(src, "<sub>")
    for cls in (Tabs, NoSimple, AllSimple, Loud, Prec, Bodies):
        for rp in (False, True):
            direct("subclass %s rp=%r" % (cls.__name__, rp), lambda cls=cls, rp=rp: cls(reduce_parentheses=rp).visit(tree))

    # reduce_parentheses with non-bool truthy / falsy values
    expr = c_parser.CParser().parse("int x = a + b * c - (d - e) * (f + g) / h % (i << 2);", "<rp>")
    for val in (0, 1, None, "", "yes", [], [0]):
        direct("reduce_parentheses=%r" % (val,), lambda val=val: G(val).visit(expr))
    direct("reduce_parentheses toggled later", lambda: (lambda g: (g.visit(expr), setattr(g, "reduce_parentheses", True), g.visit(expr)))(G()))

    # state after an exception inside nested constructs
    def after_exc():
        g = G()
        bad = A.Compound([A.Compound([A.Struct("s", [A.Goto(None)])])])
        try:
            g.visit(bad)
        except Exception as e:  # noqa: BLE001
            first = describe_exc(e)
        return (first, g.indent_level, g.visit(A.Compound([ID("a")])), g.indent_level)

    direct("indent after exception", after_exc)

    def after_exc2():
        g = G()
        try:
            g._generate_stmt(A.Goto(None), add_indent=True)
        except Exception as e:  # noqa: BLE001
            first = describe_exc(e)
        return (first, g.indent_level)

    direct("indent after exception in _generate_stmt", after_exc2)

    def after_exc3():
        g = G()
        try:
            g.visit(A.Enum("e", A.EnumeratorList([A.Enumerator("a", A.Goto(None))])))
        except Exception as e:  # noqa: BLE001
            first = describe_exc(e)
        return (first, g.indent_level)

    direct("indent after exception in enum", after_exc3)

    # order of evaluation observable through a recording subclass
    class Rec(G):
        def __init__(self, *a, **k):
            super().__init__(*a, **k)
            self.log = []

        def visit(self, node):
            self.log.append(("visit", type(node).__name__, self.indent_level))
            return super().visit(node)

        def _make_indent(self):
            self.log.append(("indent", self.indent_level))
            return super()._make_indent()

        def _is_simple_node(self, n):
            self.log.append(("simple?", type(n).__name__))
            return super()._is_simple_node(n)

        def _visit_expr(self, n):
            self.log.append(("expr", type(n).__name__))
            return super()._visit_expr(n)

        def _generate_stmt(self, n, add_indent=False):
            self.log.append(("stmt", type(n).__name__, add_indent, self.indent_level))
            return super()._generate_stmt(n, add_indent)

        def _generate_type(self, n, modifiers=[], emit_declname=True):
            self.log.append(("type", type(n).__name__, [type(m).__name__ for m in modifiers], emit_declname))
            return super()._generate_type(n, modifiers, emit_declname)

        def _generate_decl(self, n):
            self.log.append(("decl", type(n).__name__))
            return super()._generate_decl(n)

        def _parenthesize_if(self, n, condition):
            self.log.append(("paren_if", type(n).__name__))
            return super()._parenthesize_if(n, condition)

    rec_src = ("enum e { A, B = 1 + 2 }; struct s { int m : 2; union { int u; }; } v = { .m = 1 }; "
               "static inline _Alignas(8) const int *(*fp[3])(int a[static 2], ...); "
               "int k(a) int a; { l: for (int i = 0; i < (a + 1) * 2; i++) { if (a) g(a)[1].m++; else do a -= (int) a ? b : (c, d); while (!a); } "
               "switch (a) { case 1: return sizeof(int *); default: ; } }")
    rec_tree = c_parser.CParser().parse(rec_src, "<rec>")
    for rp in (False, True):
        def thunk(rp=rp):
            g = Rec(reduce_parentheses=rp)
            text = g.visit(rec_tree)
            return (text, g.log)
        direct("evaluation order log rp=%r" % rp, thunk)


def main():
    out("##### PART 1: files")
    for path in c_files():
        try:
            with open(path) as f:
                text = f.read()
        except Exception as e:  # noqa: BLE001
            out("=" * 70)
            out("INPUT file %s" % path)
            out("READ " + describe_exc(e))
            continue
        run_source("file %s" % path, text, path)
    out("##### PART 2: snippets")
    for i, src in enumerate(HAND):
        run_source("hand %d: %r" % (i, src), src)
    for label, src in generated_snippets():
        run_source("gen %s: %r" % (label, src), src)
    for label, src in test_suite_snippets():
        run_source("%s: %r" % (label, src), src)
    out("##### PART 3: direct generator calls")
    direct_cases()
    out("##### END")


if __name__ == "__main__":
    main()
