"""Behaviour digest for the declaration-parsing area of pycparser.

Run as:  cd <repo root> && /venv/bin/python equiv.py > out.txt

For every input prints either the AST dump with coordinates followed by the
regenerated C text, or the exception type and message.  The output is fully
deterministic, so two trees with the same behaviour give byte-identical output.
"""

import io
import os
import sys

sys.path.insert(0, os.getcwd())

from pycparser import c_generator, c_parser  # noqa: E402


def digest(label, text, filename):
    print("=" * 72)
    print("INPUT", label)
    try:
        parser = c_parser.CParser()
        ast = parser.parse(text, filename=filename)
    except Exception as e:  # noqa: BLE001 - the digest records every failure kind
        print("EXC %s: %s" % (type(e).__name__, e))
        return
    buf = io.StringIO()
    ast.show(buf=buf, showcoord=True, attrnames=True, nodenames=True)
    print("AST")
    sys.stdout.write(buf.getvalue())
    try:
        gen = c_generator.CGenerator().visit(ast)
    except Exception as e:  # noqa: BLE001
        print("GEN-EXC %s: %s" % (type(e).__name__, e))
        return
    print("GEN")
    print(gen)
    # Typedef-name bookkeeping is part of the observable parser state.
    print("SCOPE", sorted(parser._scope_stack[0].items()))


def file_inputs():
    for root in ("tests/c_files", "examples/c_files"):
        for dirpath, dirnames, filenames in os.walk(root):
            dirnames.sort()
            for name in sorted(filenames):
                if name.endswith((".c", ".h")):
                    yield os.path.join(dirpath, name).replace(os.sep, "/")


TD = "typedef int T; typedef char TT; typedef struct S0 { int a; } S;\n"

HAND = [
    # --- plain declarations and specifiers --------------------------------
    "int a;",
    "int a, b, c;",
    "int a = 1, b = 2;",
    "unsigned long long int x;",
    "long unsigned y;",
    "signed char c;",
    "short s; long l; float f; double d; _Bool b; _Complex double cd;",
    "__int128 big;",
    "void *p;",
    "const int ci = 3;",
    "int const ci2;",
    "volatile const unsigned vc;",
    "static int si;",
    "extern int ei;",
    "static const char *const names[] = {\"a\", \"b\"};",
    "register int r;",
    "auto int au;",
    "_Thread_local int tl;",
    "static _Thread_local int stl;",
    "inline int f(void);",
    "static inline int g(int x) { return x; }",
    "_Noreturn void die(void);",
    "_Noreturn static void die2(void) { for (;;) ; }",
    "restrict int *rp;",
    "int * restrict rp2;",
    "int * const * volatile pp;",
    "_Atomic int ai;",
    "_Atomic(int) ai2;",
    "_Atomic(int *) aip;",
    "_Atomic(int) *aip2;",
    "_Atomic int *aip3;",
    "int * _Atomic aip4;",
    "_Atomic(_Atomic(int) *) aa;",
    "const _Atomic(unsigned) cau;",
    "_Atomic(int[3]) bad;",
    "_Atomic(int(void)) bad2;",
    "_Alignas(8) int al;",
    "_Alignas(double) char buf[16];",
    "_Alignas(int) _Alignas(16) char buf2;",
    "static _Alignas(4) const char c4;",
    "_Alignas(8) x;",
    "int;",
    "const;",
    "static;",
    "static x;",
    "const x = 1;",
    "x;",
    "x = 3;",
    "int int;",
    "int x y;",
    "int struct s v;",
    "struct s int v;",
    "struct s enum e v;",
    "enum e struct s;",
    "int enum e v;",
    # --- typedefs -------------------------------------------------------
    "typedef int T;",
    "typedef int T; T x;",
    "typedef int T; T x, *y, z[3];",
    "typedef int T, *PT, AT[4];",
    "typedef int T; typedef T U; U u;",
    "typedef int (*fp)(int, char);",
    "typedef int (*fp)(int, char); fp table[4];",
    "typedef struct { int x; } P; P p = {1};",
    "typedef struct N { struct N *next; } N;",
    "typedef enum { A, B } E; E e = A;",
    "typedef int T; typedef int T;",
    "typedef int T; int T;",
    "int T; typedef int T;",
    "typedef int T; void f(void) { int T; T = 1; }",
    "typedef int T; void f(void) { T T; }",
    "typedef int T; void f(void) { unsigned T; }",
    "typedef int T; void f(void) { const T; }",
    "typedef int T; void f(void) { static T; }",
    "typedef int T; void f(void) { T; }",
    "typedef int T; void f(int T) { T = 2; }",
    "typedef int T; void f(T T);",
    "typedef int T; void f(T);",
    "typedef int T; void f(T, T x);",
    "typedef int T; void f(int (T));",
    "typedef int T; void f(int (x));",
    "typedef int T; void f(int (*T));",
    "typedef int T; void f(int (T)(int));",
    "typedef int T; void f(const T);",
    "typedef int T; void f(unsigned T);",
    "typedef int T; void f(unsigned T x);",
    "typedef int T; struct s { T T; };",
    "typedef int T; struct s { unsigned T; };",
    "typedef int T; struct s { const T; };",
    "typedef int T; struct s { T; };",
    "typedef int T; struct s { T T : 3; };",
    "typedef int T; struct s { T : 3; };",
    "typedef int T; T *(T);",
    "typedef int T; int (T);",
    "typedef int T; T (x);",
    "typedef int T; T (*x)[2];",
    "typedef int T; typedef T;",
    "typedef;",
    "typedef int;",
    "typedef int f(void) { }",
    "typedef int T; long T t;",
    "typedef int T; T long t;",
    "typedef int T; T int;",
    "typedef char TT; int f(int (TT));",
    "typedef char TT; int f(int (TT), TT (a));",
    "typedef char TT; int f(TT *(TT));",
    "typedef int T; extern T e1, e2;",
    "typedef int T; _Atomic(T) at;",
    "typedef int T; _Alignas(T) char c;",
    # --- declarators ------------------------------------------------------
    "int *p, **pp, ***ppp;",
    "int a[10];",
    "int a[];",
    "int a[2][3][4];",
    "int *a[5];",
    "int (*a)[5];",
    "int (*(*a)[5])[6];",
    "int f();",
    "int f(void);",
    "int f(int);",
    "int f(int, ...);",
    "int f(int a, char *b, ...);",
    "int f(a, b, c);",
    "int f(a, b) int a; char b; { return a; }",
    "int f(a) { return a; }",
    "f(a) int a; { return a; }",
    "f() { return 1; }",
    "f(void) { }",
    "f();",
    "f;",
    "*f() { return 0; }",
    "(*f)() { }",
    "int (*f)(void);",
    "int (*f(int x))(char);",
    "int (*(*f)(int))(char);",
    "int (*f[3])(void);",
    "int *(*f)(int *(*)(void));",
    "void (*signal(int sig, void (*func)(int)))(int);",
    "char *(*(**foo[][8])())[];",
    "int ((a));",
    "int ((*a));",
    "int (a)[3];",
    "int (f)(void);",
    "int (f)(void) { return 0; }",
    "int (*const cp)(void);",
    "int f(int a[static 3]);",
    "int f(int a[const 3]);",
    "int f(int a[const static 3]);",
    "int f(int a[static const volatile 3]);",
    "int f(int a[restrict]);",
    "int f(int a[*]);",
    "int f(int a[const *]);",
    "int f(int n, int a[n][*]);",
    "int f(int *p, int a[*p]);",
    "int f(int a[static]);",
    "int f(int [static 3]);",
    "int f(int [*]);",
    "int f(int [const *]);",
    "int f(int []);",
    "int f(int [][3]);",
    "int f(int (*)[3]);",
    "int f(int (*)(void));",
    "int f(int *(void));",
    "int f(int (void));",
    "int f(int ());",
    "int f(int (*)());",
    "int f(int (*[])());",
    "int f(int *, char **, const void *const *);",
    "int f(const);",
    "int f(register x);",
    "int f(register int x);",
    "int f(static int x);",
    "int f(inline int x);",
    "int f(struct s);",
    "int f(struct s *);",
    "int f(struct s { int a; } x);",
    "int f(enum e { A } x);",
    "int f(int x, int x);",
    "int f(int x,);",
    "int f(, int x);",
    "int f(...);",
    "int f(int x ...);",
    "int f(a, int b);",
    "int f(int a, b);",
    "int a[;",
    "int a[3;",
    "int (a;",
    "int (*a;",
    "int *;",
    "int [3];",
    "int ();",
    "int (*)(void);",
    "int a b;",
    "int a,;",
    "int ,a;",
    "int a",
    "int",
    "int *",
    "int a = ;",
    "int 3;",
    "int a[3] b;",
    "int f(void) g;",
    "int f(void)(void);",
    "int a[3](void);",
    "int f(void)[3];",
    # --- struct / union -------------------------------------------------
    "struct s;",
    "struct s { };",
    "struct { };",
    "struct { } v;",
    "struct s { int a; };",
    "struct s { int a; } v;",
    "struct s { int a, b; char *c; } v, *pv, av[2];",
    "struct { int a; } anon;",
    "union u { int i; float f; };",
    "union u { int i; float f; } uv = { .f = 1.0 };",
    "union { int i; };",
    "struct s { struct { int x; }; union { int y; float z; }; };",
    "struct s { struct in { int x; } i; };",
    "struct s { struct in; };",
    "struct s { enum e { A } e; };",
    "struct s { enum { A, B }; };",
    "struct s { int a : 3; };",
    "struct s { int a : 3, b : 4, : 0; };",
    "struct s { int : 3; };",
    "struct s { unsigned : 0; int x; };",
    "struct s { int (*fp)(void); };",
    "struct s { int a[]; };",
    "struct s { const int a; volatile char *b; };",
    "struct s { _Alignas(8) char c; };",
    "struct s { _Alignas(8); };",
    "struct s { _Atomic int a; _Atomic(int) b; };",
    "struct s { ; };",
    "struct s { ;; int a; ; };",
    "struct s { int; };",
    "struct s { int a };",
    "struct s { int a; ",
    "struct s { int a = 1; };",
    "struct s { static int a; };",
    "struct s { typedef int a; };",
    "struct s { const; };",
    "struct s { int a, ; };",
    "struct s { int *; };",
    "struct s { int a : ; };",
    "struct s { void f(void) { } };",
    "struct s { _Static_assert(1, \"x\"); int a; };",
    "struct s {\n#pragma pack(1)\n int a;\n};",
    "struct s { _Pragma(\"pack(1)\") int a; };",
    "struct;",
    "struct 3;",
    "struct s s;",
    "struct s *next;",
    "struct s f(void);",
    "struct s { int a; } f(void) { }",
    "const struct s cs;",
    "struct s const sc;",
    "static struct s { int a; } ss = { 1 };",
    "typedef int T; struct T { int a; };",
    "typedef int T; struct T t;",
    "typedef int T; struct T { T T; } T2;",
    "typedef int T; struct s { T x; T *y; };",
    "struct s { int a; }; struct s { int b; };",
    "struct a { int x; } struct b { int y; };",
    # --- enum -------------------------------------------------------------
    "enum e;",
    "enum e { A };",
    "enum e { A, };",
    "enum e { A, B, C };",
    "enum e { A = 1, B = A + 2, C };",
    "enum { A, B } v;",
    "enum e { A } v = A;",
    "enum e v;",
    "enum e { };",
    "enum { };",
    "enum e { , };",
    "enum e { A B };",
    "enum e { A = };",
    "enum e { 1 };",
    "enum e { A,, B };",
    "enum;",
    "enum 3;",
    "enum e { A",
    "typedef int T; enum T { A };",
    "typedef int T; enum e { T };",
    "typedef int T; enum e { A = sizeof(T) };",
    "enum e { A }; int A;",
    "enum e { A }; typedef int A;",
    "const enum e ce;",
    "enum e { A } f(void);",
    "enum e *pe;",
    # --- initializers -----------------------------------------------------
    "int a[] = {1, 2, 3};",
    "int a[] = {1, 2, 3,};",
    "int a[] = {};",
    "int a[] = {,};",
    "int a[] = {1,,2};",
    "int a[] = {1 2};",
    "int a[] = {1, 2;",
    "int a = {1};",
    "int a = {{1}};",
    "int a[2][2] = {{1, 2}, {3, 4}};",
    "int a[5] = {[0] = 1, [4] = 5};",
    "int a[5] = {[0] 1};",
    "int a[5] = {[] = 1};",
    "int a[5] = {[1 ... 3] = 1};",
    "struct s v = {.a = 1, .b = 2};",
    "struct s v = {.a = 1, 2, .c = {3, 4}};",
    "struct s v = {.a.b[2].c = 1};",
    "struct s v = {[1].x = 1, [2].y = {1, 2}};",
    "struct s v = {. = 1};",
    "struct s v = {.a 1};",
    "struct s v = {.a = };",
    "typedef int T; struct s v = {.T = 1};",
    "int a = (1, 2);",
    "int a = 1, 2;",
    "int a = b = c;",
    "int a = b ? c : d;",
    "char s[] = \"abc\" \"def\";",
    "int *p = &(int){1};",
    "struct s v = (struct s){.a = 1};",
    "int n = sizeof(int[3]);",
    "int n = sizeof(struct { int a; });",
    "int n = _Alignof(int *);",
    "int n = (int)1.5;",
    "void *p = (void (*)(int))0;",
    "int f(void) = 3;",
    "typedef int T = 3;",
    # --- function definitions and local declarations -----------------------
    "int main(void) { int a; int b = a; return b; }",
    "int main(void) { struct s { int a; } v; union u *p; enum e { A } x; }",
    "int main(void) { typedef int L; L x; }",
    "int main(void) { typedef int L; } L x;",
    "int main(void) { for (int i = 0, j = 1; i < j; i++) ; }",
    "int main(void) { for (typedef int L;;) ; }",
    "int main(void) { static int x = 1; extern int y; register int z; }",
    "int main(void) { int a[3] = {1, 2, 3}, *p = a; }",
    "int main(void) { int x; { int x; { int x; } } }",
    "int main(void) { int f(int); return f(1); }",
    "int main(void) { _Static_assert(1, \"ok\"); int x; }",
    "int main(void) { int; }",
    "int main(void) { int x }",
    "int main(int argc, char **argv) { return argc; }",
    "int main(argc, argv) int argc; char **argv; { return argc; }",
    "int main(argc, argv) int argc; char **argv; int extra;",
    "int main(argc) int argc = 1; { }",
    "int main(void) int x; { }",
    "static int f(void) { }  static int g(void) { }",
    "int f(void) { } ;",
    "int f(int x) { int x; }",
    "void f(int x, ...) { }",
    "typedef int T; T f(T a, T *b) { T c = a; return c; }",
    "typedef int T; T (f)(void) { }",
    "typedef int T; int f(void) { T *p; T (*q); T(r); }",
    "typedef int T; int f(int a) { T * a; }",
    "int x; int f(void) { x * y; }",
    "_Static_assert(sizeof(int) == 4, \"int\");",
    "_Static_assert(1);",
    "_Static_assert(1, );",
    ";",
    ";;;",
    "",
    "#include <x.h>",
    "int a;\n#define X 1",
    "#pragma once\nint a;",
    "_Pragma(\"once\") int a;",
    "#line 20 \"other.c\"\nint a;\nint b",
    "#line 20 \"other.c\"\nstruct s { int a; int; } v;\nint f(int [static]);",
    "int a;\n\n\n   int  b[;",
    "int\n  *\n    a\n      [3]\n        ;",
    "struct\n s\n {\n int\n a\n :\n 3\n ;\n }\n ;",
    "enum\n e\n {\n A\n =\n 1\n ,\n B\n }\n ;",
    "int f(\n int a,\n char b\n)\n{\n return a;\n}",
]


def generated():
    specs = [
        "int",
        "unsigned",
        "const char",
        "static long",
        "extern T",
        "struct s",
        "struct { int m; }",
        "union u { int m; float n; }",
        "enum e",
        "enum { K0, K1 }",
        "_Atomic(int)",
        "_Alignas(16) short",
        "typedef unsigned",
        "const",
        "static",
        "inline void",
        "T T",
        "S",
    ]
    decls = [
        "",
        "x",
        "*x",
        "x[3]",
        "x[]",
        "(*x)(void)",
        "x(int, T)",
        "*x[2], **y",
        "x = 0",
        "x = {0}",
        "(x)",
        "(TT)",
        "*(TT)(T)",
        "x : 2",
    ]
    for s in specs:
        for d in decls:
            yield "%s%s %s;" % (TD, s, d)
    # The same specifier/declarator grid as struct members and parameters.
    for s in specs:
        for d in decls:
            yield "%sstruct W { %s %s; };" % (TD, s, d)
    for s in specs:
        for d in decls:
            yield "%svoid fn(%s %s);" % (TD, s, d)
    for s in specs[:8]:
        for d in decls[:8]:
            yield "%svoid fn(void) { %s %s; }" % (TD, s, d)
    for s in specs[:10]:
        yield "%sint n = sizeof(%s);" % (TD, s)
        yield "%sint n = sizeof(%s *);" % (TD, s)
        yield "%sint n = sizeof(%s [2]);" % (TD, s)
        yield "%sint n = sizeof(%s (*)(void));" % (TD, s)
        yield "%svoid *q = (%s *)0;" % (TD, s)


def direct_build_declarations():
    """Drive _build_declarations directly on the two "name swallowed by the
    specifiers" fix-up paths, which the recursive-descent specifier loop does
    not produce on its own.  Uses the same keyword arguments as the library.
    """
    from pycparser import c_ast
    from pycparser.c_parser import Coord

    def ident(names, line):
        return c_ast.IdentifierType(names, coord=Coord("d.c", line, 1))

    def typedecl(name, line):
        return c_ast.TypeDecl(name, None, None, None, coord=Coord("d.c", line, 5))

    def ptr(inner, line):
        return c_ast.PtrDecl([], inner, coord=Coord("d.c", line, 3))

    def arr(inner, line):
        return c_ast.ArrayDecl(inner, None, [], coord=Coord("d.c", line, 4))

    struct = lambda line: c_ast.Struct("s", None, coord=Coord("d.c", line, 2))  # noqa: E731

    cases = [
        # (label, type list, first decl, storage, typedef_namespace)
        ("none-ok", lambda: [ident(["unsigned"], 1), ident(["T"], 2)], lambda: None, [], True),
        ("none-ok-typedef", lambda: [ident(["long"], 1), ident(["T"], 2)], lambda: None, ["typedef"], True),
        ("none-ok-3", lambda: [ident(["long"], 1), ident(["long"], 2), ident(["TT"], 3)], lambda: None, ["static"], False),
        ("none-short", lambda: [ident(["T"], 1)], lambda: None, [], True),
        ("none-empty", lambda: [], lambda: None, [], True),
        ("none-notident", lambda: [ident(["int"], 1), struct(2)], lambda: None, [], True),
        ("none-twonames", lambda: [ident(["int"], 1), ident(["T", "T"], 2)], lambda: None, [], True),
        ("none-notype", lambda: [ident(["int"], 1), ident(["zz"], 2)], lambda: None, [], True),
        ("none-nocoord", lambda: [["raw"], ident(["zz"], 2)], lambda: None, [], True),
        ("none-nocoord-all", lambda: [["raw"], ["raw2"]], lambda: None, [], True),
        ("abs-ok", lambda: [ident(["int"], 1), ident(["T"], 2)], lambda: ptr(typedecl(None, 3), 3), [], True),
        ("abs-ok-arr", lambda: [ident(["int"], 1), ident(["q"], 2)], lambda: arr(ptr(typedecl(None, 3), 3), 3), ["typedef"], True),
        ("abs-ok-plain", lambda: [ident(["int"], 1), ident(["w"], 2)], lambda: typedecl(None, 3), [], False),
        ("abs-one", lambda: [ident(["T"], 2)], lambda: ptr(typedecl(None, 3), 3), [], True),
        ("abs-notident", lambda: [ident(["int"], 1), struct(2)], lambda: ptr(typedecl(None, 3), 3), [], True),
        ("abs-empty", lambda: [], lambda: ptr(typedecl(None, 3), 3), [], True),
        ("named", lambda: [ident(["int"], 1)], lambda: ptr(typedecl("n", 3), 3), [], True),
        ("struct-decl", lambda: [struct(1)], lambda: struct(1), [], False),
    ]
    for label, mk_types, mk_decl, storage, tdns in cases:
        for bitsize in (None, "bits"):
            print("=" * 72)
            print("DIRECT", label, "bitsize" if bitsize else "plain")
            parser = c_parser.CParser()
            parser.parse(TD, filename="d.c")
            # Work in an inner scope so that typedef names may be redeclared.
            parser._push_scope()
            spec = dict(
                qual=["const"], storage=list(storage), type=mk_types(), function=[], alignment=[]
            )
            bs = None
            if bitsize:
                bs = c_ast.Constant("int", "3", coord=Coord("d.c", 9, 9))
            infos = [dict(decl=mk_decl(), init=None, bitsize=bs)]
            try:
                out = parser._build_declarations(
                    spec=spec, decls=infos, typedef_namespace=tdns
                )
            except Exception as e:  # noqa: BLE001
                print("EXC %s: %s" % (type(e).__name__, e))
            else:
                for node in out:
                    buf = io.StringIO()
                    node.show(buf=buf, showcoord=True, attrnames=True, nodenames=True)
                    sys.stdout.write(buf.getvalue())
            print("SPEC-TYPES", len(spec["type"]), [type(t).__name__ for t in spec["type"]])
            print("INFO-DECL", type(infos[0]["decl"]).__name__)
            print("SCOPES", [sorted(sc.items(), key=repr) for sc in parser._scope_stack])


def main():
    for path in file_inputs():
        with open(path) as f:
            text = f.read()
        digest("FILE " + path, text, path)
    for i, text in enumerate(HAND):
        digest("HAND %d %r" % (i, text), text, "hand.c")
    for i, text in enumerate(generated()):
        digest("GEN %d %r" % (i, text[len(TD):] if text.startswith(TD) else text), text, "gen.c")
    direct_build_declarations()


if __name__ == "__main__":
    main()
