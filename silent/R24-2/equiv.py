"""Behaviour digest for pycparser (focus: c_generator).

Run as:  cd <repo root> && /venv/bin/python equiv.py > out.txt

For every input prints either the AST dump (with coordinates) and the
generated C (plain and with reduce_parentheses=True, plus the dump of the
re-parsed output), or the exception type and message.  Deterministic.
"""
import io
import itertools
import os
import sys

sys.path.insert(0, os.getcwd())

from pycparser import c_ast, c_generator, c_parser  # noqa: E402


def dump(ast):
    buf = io.StringIO()
    ast.show(buf=buf, attrnames=True, nodenames=True, showcoord=True)
    return buf.getvalue()


def gen(node, reduce_parentheses):
    g = c_generator.CGenerator(reduce_parentheses=reduce_parentheses)
    try:
        out = g.visit(node)
    except Exception as e:  # noqa: BLE001
        return "EXC %s: %s [indent_level=%r]" % (type(e).__name__, e, g.indent_level)
    return "%s\n[indent_level=%r]" % (out, g.indent_level)


def section(title):
    print("=" * 70)
    print(title)
    print("-" * 70)


def run_source(label, text, filename="<in>"):
    section(label)
    try:
        ast = c_parser.CParser().parse(text, filename)
    except Exception as e:  # noqa: BLE001
        print("PARSE EXC %s: %s" % (type(e).__name__, e))
        return
    print(dump(ast))
    for rp in (False, True):
        print("--- generated (reduce_parentheses=%s)" % rp)
        out = gen(ast, rp)
        print(out)
        if out.startswith("EXC "):
            continue
        src = out.rsplit("\n[indent_level=", 1)[0]
        try:
            ast2 = c_parser.CParser().parse(src, filename)
        except Exception as e:  # noqa: BLE001
            print("--- reparse EXC %s: %s" % (type(e).__name__, e))
            continue
        print("--- reparse dump")
        print(dump(ast2))
        # every top-level entity on its own as well (visit_* entry points)
    print("--- per external declaration")
    for ext in ast.ext:
        print(gen(ext, False))
        print(gen(ext, True))


def run_node(label, node):
    section(label)
    try:
        print(dump(node))
    except Exception as e:  # noqa: BLE001
        print("DUMP EXC %s: %s" % (type(e).__name__, e))
    for rp in (False, True):
        print("--- generated (reduce_parentheses=%s)" % rp)
        print(gen(node, rp))


# ---------------------------------------------------------------------------
# 1. C files
# ---------------------------------------------------------------------------
def c_files():
    res = []
    for d in ("tests/c_files", "examples/c_files"):
        for root, dirs, files in os.walk(d):
            dirs.sort()
            for f in sorted(files):
                if f.endswith((".c", ".h")):
                    res.append(os.path.join(root, f))
    return res


# ---------------------------------------------------------------------------
# 2. Hand written snippets
# ---------------------------------------------------------------------------
SNIPPETS = [
    # declarations and types
    "int a;",
    "int a, b, *c, d[3], (*e)(int), f = 1;",
    "unsigned long long int x = 10ULL;",
    "const int * const * volatile p;",
    "int * const restrict q;",
    "int (*fp)(int, char **);",
    "int (*fparr[10])(void);",
    "int (*(*fpp)(int))(char);",
    "int *(*ap)[10];",
    "int (*pa)[10][20];",
    "char *(*(**foo[][8])())[];",
    "void (*signal(int sig, void (*func)(int)))(int);",
    "int arr[static 10];",
    "void f(int a[static 10], int b[const], int c[restrict static 3], int d[*]);",
    "void f(int a[const volatile 5]);",
    "int f(void);",
    "int f();",
    "int f(int, ...);",
    "int f(int a, ...);",
    "static inline int f(int a) { return a; }",
    "extern _Noreturn void die(const char *msg);",
    "_Thread_local int tl;",
    "static _Thread_local int tl2 = 3;",
    "typedef int myint; myint x; myint *y; myint z[3];",
    "typedef int (*cb_t)(int); cb_t table[4];",
    "typedef struct S { int a; } S, *PS; S s; PS ps;",
    "typedef const char *cstr;",
    "extern typedef int weird;",
    "struct S;",
    "struct S { int a; char b; };",
    "struct S { int a : 3; unsigned : 0; int c : 2 + 1; };",
    "struct S { struct { int x; int y; }; union { int i; float f; } u; };",
    "struct { int a; } anon;",
    "struct S { };",
    "const struct S;",
    "const struct S { int a; };",
    "volatile union U;",
    "const enum E { EA };",
    "union U { int i; float f; char c[4]; };",
    "union U;",
    "enum E;",
    "enum E { A, B, C };",
    "enum E { A = 1, B = A + 2, C = (A << 3) | B, };",
    "enum { X } ex;",
    "enum E { A } e1, *e2;",
    "struct S { enum { P, Q } pq; struct T *t; } s1;",
    "struct S { int a; } s = { 1 };",
    "struct S { int a; struct { int b; int c[2]; } in; } s = { .a = 1, .in = { .b = 2, .c = { [0] = 3, [1] = 4 } } };",
    "int arr[] = { 1, 2, 3 };",
    "int arr2[2][2] = { { 1, 2 }, { 3, 4 } };",
    "int arr3[] = { [0] = 1, [2 ... 3] = 4 };",
    "int arr4[] = { [1].x = 2, [2][3] = 4, .y[1] = 3 };",
    "int e[] = {};",
    "char s[] = \"hello\" \" world\";",
    "char c = 'a'; char d = '\\n'; int w = L'x';",
    "float f = 1.0f; double d = 1e10; double h = 0x1.8p3; long double l = 1.5L;",
    "int x = 0x1F, y = 017, z = 0b101;",
    "_Alignas(8) int aligned;",
    "_Alignas(int) char ac;",
    "_Alignas(8) _Alignas(16) int aligned2;",
    "struct S { _Alignas(16) int a; };",
    "static _Alignas(8) const int sa = 1;",
    "_Static_assert(1, \"msg\");",
    "_Static_assert(sizeof(int) == 4);",
    "struct S { _Static_assert(1, \"in struct\"); int a; };",
    "_Atomic(int) ai;",
    "_Atomic int aj;",
    "_Atomic(int *) ap; int * _Atomic aq;",
    "int x = sizeof(int);",
    "int x = sizeof(int *), y = sizeof x, z = sizeof(x), w = sizeof (struct S *);",
    "int x = _Alignof(int);",
    "int x = (int) 3.5;",
    "int x = (int) (3 + 4);",
    "char *p = (char *) 0;",
    "int x = (int (*)(void)) 0;",
    "int x = (const int) 1;",
    "int x = (struct S) { 1, 2 }.a;",
    "int *p = (int []) { 1, 2, 3 };",
    "struct S v = (struct S) { .a = 1 };",
    "int x = __builtin_offsetof(struct S, a);",
    "int x = __builtin_offsetof(struct S, a.b[1]);",
    "#pragma once\nint x;",
    "#pragma\nint x;",
    "int x;\n#pragma omp parallel for\nint y;",
    "void f(void) {\n#pragma inside\n  x = 1;\n}",
    "void f(void) { _Pragma(\"omp parallel\") x = 1; }",
    "_Pragma(\"once\") int x;",
    "void f(void) { if (x)\n#pragma p\n y = 1; }",
    "struct S {\n#pragma pack(1)\n int a;\n};",
    # K&R
    "int f(a, b) int a; char b; { return a + b; }",
    "int f(a, b) int a, b; { return a; }",
    "int main(argc, argv) int argc; char **argv; { return 0; }",
    # expressions
    "int x = a + b * c;",
    "int x = (a + b) * c;",
    "int x = a - (b - c);",
    "int x = (a - b) - c;",
    "int x = a - (b + c) - d * (e / f) % g;",
    "int x = a || b && c | d ^ e & f == g != h < i > j <= k >= l << m >> n + o - p * q / r % s;",
    "int x = ((((a || b) && c) | d) ^ e) & f;",
    "int x = a * (b + (c - (d << (e < (f == (g & (h ^ (i | (j && (k || l))))))))));",
    "int x = a == b == c, y = a < b < c, z = a << b >> c;",
    "int x = a ? b : c;",
    "int x = a ? b ? c : d : e ? f : g;",
    "int x = (a, b) ? (c, d) : (e, f);",
    "int x = a ? (b = 1) : (c = 2);",
    "int x = -a + +b - -c + !d + ~e;",
    "int x = - -a, y = - --a, z = + ++a, w = -(-a);",
    "int x = *p++ + *++p + (*p)++ + ++*p;",
    "int x = a++ + ++a + a-- + --a;",
    "int x = (a + b)++;",
    "int x = &a[1] - &*p + *&a;",
    "int x = !(a && b) || ~(c | d);",
    "int x = -(a + b) * -(c);",
    "int x = sizeof a + sizeof(a + b) + sizeof(int[3]) + sizeof a++;",
    "int x = a.b.c + p->q->r + a.b->c + (*p).q + (&a)->b;",
    "int x = 1.x;",
    "int x = (a + b).c + (a ? b : c)->d + (*p)[1] + f(x)[2] + a[1](3) + (f)(1) + (*fp)(2);",
    "int x = f() + g(1) + h(1, 2, 3) + k((1, 2), 3) + m(a = 1, b ? c : d);",
    "int x = a[b[c[d]]] + a[1][2][3] + a[b + c] + a[b, c];",
    "int x = (a = b) + (c += d);",
    "int x = \"abc\"[1] + 'a' + L\"wide\"[0] + u8\"u8\"[0];",
    "int x = ((int) a) + (int) -a + (int) (a + b) + (int) a[1] + (int) f(x) + (int) (int) a + (int) sizeof a;",
    "int x = ({ int y = 1; y; });",
    "void f(void) { a = b; a += b; a -= b; a *= b; a /= b; a %= b; a <<= b; a >>= b; a &= b; a |= b; a ^= b; }",
    "void f(void) { a = b = c; a = (b = c); (a = b) = c; a = b ? c : d; a = (b, c); }",
    "void f(void) { a, b, c; (a, b), c; a, (b, c); f((a, b)); }",
    "void f(void) { *p = 1; p[0] = 2; s.a = 3; s->b = 4; (*p).c = 5; *(p + 1) = 6; }",
    "void f(void) { x = (struct S) { 1, 2 }; y = (int []) { 1 }[0]; }",
    "void f(void) { x = a ? (struct S) { 1 } : (struct S) { 2 }; }",
    "void f(void) { x = (a ? b : c) ? d : e; x = a ? b : (c ? d : e); x = (a, b); }",
    "void f(void) { x = sizeof(struct { int a; }); }",
    "void f(void) { x = (enum { A, B }) 1; }",
    # statements
    "void f(void) { }",
    "void f(void) { ; }",
    "void f(void) { ;; }",
    "void f(void) { { } { ; } { { } } }",
    "void f(void) { int a; int b = 1, c; a = b; }",
    "void f(void) { if (a) b = 1; }",
    "void f(void) { if (a) b = 1; else c = 2; }",
    "void f(void) { if (a) { b = 1; } else { c = 2; } }",
    "void f(void) { if (a) if (b) c = 1; else d = 2; else e = 3; }",
    "void f(void) { if (a) b = 1; else if (c) d = 2; else if (e) g = 3; else h = 4; }",
    "void f(void) { if (a) ; else ; }",
    "void f(void) { if (a) { if (b) { if (c) { d; } } } }",
    "void f(void) { if (a) for (;;) if (b) break; else continue; }",
    "void f(void) { while (a) b++; while (1) { if (a) break; } }",
    "void f(void) { do a++; while (a < 10); do { a--; } while (a); }",
    "void f(void) { do do a++; while (b); while (c); }",
    "void f(void) { for (;;) ; }",
    "void f(void) { for (i = 0; i < 10; i++) a += i; }",
    "void f(void) { for (int i = 0, j = 1; i < j; i++, j--) { a += i; } }",
    "void f(void) { for (i = 0, j = 0; ; ) { } for (; i; ) ; for (;; i++) ; }",
    "void f(void) { for (int i = 0; i < 3; i++) for (int j = 0; j < 3; j++) a[i][j] = 0; }",
    "void f(void) { switch (a) { case 1: b = 1; break; case 2: case 3: c = 2; default: d = 3; } }",
    "void f(void) { switch (a) { case 1: { b = 1; break; } default: ; } }",
    "void f(void) { switch (a) case 1: b = 2; }",
    "void f(void) { switch (a) { default: break; case 1 + 2: return; case 'a': if (x) y; else z; } }",
    "void f(void) { switch (a) { case 1: switch (b) { case 2: c; } break; } }",
    "void f(void) { switch (a) { int x; case 1: x = 1; } }",
    "void f(void) { switch (a) { } }",
    "void f(void) { switch (a) ; }",
    "void f(void) { goto end; end: ; }",
    "void f(void) { l1: l2: a = 1; goto l1; }",
    "void f(void) { l1: { a = 1; } l2: if (a) b; l3: for (;;) ; }",
    "void f(void) { if (a) l1: b = 1; else l2: c = 2; }",
    "int f(void) { return; }",
    "int f(void) { return 1; }",
    "int f(void) { return a + b; }",
    "int f(void) { return (a, b); }",
    "int f(void) { return (struct S) { 1 }; }",
    "int f(void) { return a ? b : c; }",
    "void f(void) { typedef int T; T x; { T T; } }",
    "void f(void) { struct L { int a; } l; union { int a; } u; enum { A } e; }",
    "void f(void) { struct L { int a; struct { int b; enum { Z, W } z; } in; } l; }",
    "void f(void) { if (a) { struct L { int a; } l; } }",
    "void f(void) { _Static_assert(1, \"x\"); }",
    "void f(void) { int a[n]; int b[*p]; int c[sizeof(int)]; }",
    "void f(void) { 1; a; a[1]; a.b; f(); (int) a; -a; a + b; a ? b : c; a, b; (int) { 1 }; \"s\"; }",
    "void f(void) { sizeof(int); sizeof a; _Alignof(int); }",
    "void f(void) { extern int g; static int s; register int r; auto int au; }",
    "void f(void) { int x = 1; { int x = 2; { int x = 3; } } }",
    "int f(int a) { if (a) return 1; else { while (a) { do { for (;;) { switch (a) { case 1: { goto out; } } } } while (0); } } out: return 0; }",
    "struct S { int a; } f(void) { struct S s; return s; }",
    "enum E { A, B } f(enum E e) { return e; }",
    "int f(struct { int a; } s);",
    "int f(enum { A, B } e);",
    "int (*f(int a))(int) { return 0; }",
    "int *f(void) { return 0; }",
    "int **f(int **a, char *b[]) { return a; }",
    "const char *const *f(void);",
    "void f(int (*cb)(int, int), void (*g)(void));",
    "void f(int a[], int b[3][4], int (*c)[4]);",
    "void f(register int a, const volatile int b);",
    "int f(int), g(char), *h(void);",
    "int x, f(int), *p;",
    "void f(void) { int (*p)(int) = g, *q = 0, r[2] = { 1, 2 }; }",
    "void f(void) { for (struct { int a; } s = { 0 }; s.a < 3; s.a++) ; }",
    "int a; int f(void) { return a; } int b; int g(void) { return b; }",
    # error cases
    "int",
    "int x",
    "int x = ;",
    "int x = 1 +;",
    "int f( { }",
    "void f(void) { if }",
    "void f(void) { if (a) }",
    "void f(void) { for (;;) }",
    "void f(void) { return 1 }",
    "void f(void) { switch }",
    "void f(void) { case 1: ; }",
    "struct { int a };",
    "enum E { };",
    "enum E { A = };",
    "int a[;",
    "int x = a ? b;",
    "int x = (int;",
    "int x = sizeof(;",
    "void f(void) { a = ; }",
    "void f(void) { goto ; }",
    "void f(void) { do ; while (1) }",
    "int x = 1 2;",
    "int x = a..b;",
    "int x = a->;",
    "int x = f(1,);",
    "int x = { 1, , 2 };",
    "int x = @;",
    "int x = 'ab",
    "int x = \"abc;",
    "typedef int T; int T;",
    "int T; typedef int T;",
    "void f(void) { int a; ",
    "}",
    ";",
    "",
    "_Static_assert();",
    "_Alignas() int x;",
    "_Pragma(once) int x;",
    "int f(a, b) int a; { }",
    "unsigned float x;",
    "int x = 09;",
    "int x = 0x;",
    "int x = 1.0e;",
]


# ---------------------------------------------------------------------------
# 3. Systematically generated expression snippets
# ---------------------------------------------------------------------------
BINOPS = ["||", "&&", "|", "^", "&", "==", "!=", ">", ">=", "<", "<=", ">>", "<<",
          "+", "-", "*", "/", "%"]
UNOPS = ["-", "+", "!", "~", "*", "&", "++", "--", "sizeof "]
POSTOPS = ["++", "--"]


def generated_snippets():
    res = []
    # every pair of binary operators in both association shapes
    for o1, o2 in itertools.product(BINOPS, BINOPS):
        res.append("int x = (a %s b) %s c, y = a %s (b %s c), z = a %s b %s c;"
                   % (o1, o2, o1, o2, o1, o2))
    # unary operators around the main operand shapes
    operands = ["a", "1", "a[1]", "a.b", "a->b", "f(a)", "(a + b)", "(a ? b : c)",
                "(a = b)", "(a, b)", "(int) a", "-a", "a++", "*p", "sizeof a",
                "(struct S) { 1 }", "\"s\"", "1.5"]
    for u in UNOPS:
        for opnd in operands:
            res.append("void f(void) { x = %s%s; }" % (u, opnd))
    for u in POSTOPS:
        for opnd in operands:
            res.append("void f(void) { x = %s%s; }" % (opnd, u))
    # postfix forms on each operand shape
    for opnd in operands:
        res.append("void f(void) { x = %s[0]; y = %s.m; z = %s->m; w = %s(1); v = (char) %s; }"
                   % (opnd, opnd, opnd, opnd, opnd))
    # ternary / assignment / binary with each operand shape on each side
    for opnd in operands:
        res.append("void f(void) { x = %s ? %s : %s; y = z = %s; w = %s + %s * %s; }"
                   % (opnd, opnd, opnd, opnd, opnd, opnd, opnd))
    # declarator shapes
    decls = ["%s", "*%s", "**%s", "%s[3]", "*%s[3]", "(*%s)[3]", "%s[3][4]",
             "(*%s)(int)", "*(*%s)(int)", "(*%s[3])(int)", "(*(*%s)(int))[3]",
             "*const %s", "*const *volatile %s", "(*const %s)(void)",
             "(*const %s[2])[3]", "* restrict * %s", "(**%s)(int, ...)",
             "(*(*%s)[2])(void)", "*(*(*%s)(void))(int)"]
    quals = ["int", "const int", "unsigned long", "struct S", "const struct S",
             "enum E", "T"]
    for q in quals:
        for d in decls:
            name = d % "v"
            abstract = d % ""
            res.append(
                "typedef int T; %s %s; typedef %s; void g(%s); void h(%s); int s = sizeof(%s %s); "
                "void k(void) { w = (%s %s) u; }"
                % (q, name, q + " " + d % "TD", q + " " + name, q + " " + abstract,
                   q, abstract, q, abstract)
            )
    # statement nesting: each statement kind as the body of each other kind
    bodies = ["a = 1;", ";", "{ }", "{ a = 1; b = 2; }", "if (c) d; else e;",
              "while (c) d;", "do d; while (c);", "for (;;) d;",
              "switch (c) { case 1: d; break; default: e; }", "return;", "break;",
              "continue;", "goto l;", "l: a = 1;", "{ int q = 1; }",
              "_Pragma(\"p\") a = 1;"]
    wrappers = ["if (x) %s", "if (x) %s else %s", "while (x) %s", "do %s while (x);",
                "for (i = 0; i < n; i++) %s", "switch (x) { case 0: %s default: %s }",
                "lab: %s", "{ %s %s }", "switch (x) %s"]
    for w in wrappers:
        for b in bodies:
            n = w.count("%s")
            res.append("void f(void) { %s }" % (w % ((b,) * n)))
    return res


# ---------------------------------------------------------------------------
# 4. Hand constructed ASTs (shapes the parser does not produce, error cases)
# ---------------------------------------------------------------------------
def ID(n):
    return c_ast.ID(n)


def K(v, t="int"):
    return c_ast.Constant(t, v)


def tdecl(name, names=("int",), quals=None):
    return c_ast.TypeDecl(name, quals or [], None, c_ast.IdentifierType(list(names)))


def decl(name, typ, quals=None, storage=None, funcspec=None, align=None, init=None,
         bitsize=None):
    return c_ast.Decl(name, quals or [], align or [], storage or [], funcspec or [],
                      typ, init, bitsize)


def constructed_nodes():
    res = []
    B = c_ast.BinaryOp
    U = c_ast.UnaryOp
    a, b, c = ID("a"), ID("b"), ID("c")
    for op in ["p++", "p--", "++", "--", "-", "+", "!", "~", "*", "&", "sizeof",
               "_Alignof", "", "p", "p+", "pp++", "p++p", "weird ", "++p"]:
        for operand in [a, K("1"), B("+", a, b), U("-", a), U("p++", a),
                        c_ast.Cast(c_ast.Typename(None, [], None, tdecl(None)), a),
                        c_ast.TernaryOp(a, b, c), c_ast.Assignment("=", a, b),
                        c_ast.ExprList([a, b]), c_ast.InitList([a, b]),
                        c_ast.ArrayRef(a, b), c_ast.StructRef(a, ".", b),
                        c_ast.FuncCall(a, None),
                        c_ast.Typename(None, [], None, tdecl(None))]:
            res.append(("UnaryOp %r" % op, U(op, operand)))
    for o1, o2 in itertools.product(BINOPS + ["??", ","], repeat=2):
        res.append(("BinaryOp nest %s %s" % (o1, o2),
                    B(o2, B(o1, a, b), B(o1, c, B(o2, a, b)))))
    res.append(("BinaryOp unknown parent simple kids", B("??", a, b)))
    res.append(("BinaryOp none kids", B("+", None, None)))
    res.append(("BinaryOp initlist kid", B("+", c_ast.InitList([a]), c_ast.ExprList([a, b]))))
    res.append(("BinaryOp compound kid", B("+", c_ast.Compound([a]), c_ast.Compound(None))))
    res.append(("Assignment chain", c_ast.Assignment("=", a, c_ast.Assignment("+=", b, c))))
    res.append(("Assignment lhs assignment", c_ast.Assignment("=", c_ast.Assignment("=", a, b), c)))
    res.append(("Assignment initlist", c_ast.Assignment("=", a, c_ast.InitList([b, c]))))
    res.append(("Assignment exprlist", c_ast.Assignment("=", a, c_ast.ExprList([b, c]))))
    for base in [a, K("1"), K("1.5", "double"), K('"s"', "string"), B("+", a, b),
                 U("*", a), c_ast.ArrayRef(a, b), c_ast.StructRef(a, "->", b),
                 c_ast.FuncCall(a, c_ast.ExprList([])), c_ast.ExprList([a, b]),
                 c_ast.InitList([a]), c_ast.TernaryOp(a, b, c), c_ast.Assignment("=", a, b),
                 c_ast.CompoundLiteral(c_ast.Typename(None, [], None, tdecl(None)),
                                       c_ast.InitList([K("1")]))]:
        res.append(("StructRef . base", c_ast.StructRef(base, ".", ID("m"))))
        res.append(("StructRef -> base", c_ast.StructRef(base, "->", ID("m"))))
        res.append(("ArrayRef base", c_ast.ArrayRef(base, K("0"))))
        res.append(("ArrayRef subscript", c_ast.ArrayRef(a, base)))
        res.append(("FuncCall base", c_ast.FuncCall(base, c_ast.ExprList([base, base]))))
        res.append(("FuncCall noargs", c_ast.FuncCall(base, None)))
        res.append(("Cast", c_ast.Cast(c_ast.Typename(None, ["const"], None,
                                                       c_ast.PtrDecl([], tdecl(None, ["char"]))), base)))
        res.append(("Ternary", c_ast.TernaryOp(base, base, base)))
        res.append(("Return", c_ast.Return(base)))
        res.append(("Decl init", decl("v", tdecl("v"), init=base)))
        res.append(("Decl bitsize", decl("v", tdecl("v"), bitsize=base)))
        res.append(("NamedInitializer", c_ast.NamedInitializer([ID("f"), K("2"), base], base)))
        res.append(("Compound stmt", c_ast.Compound([base])))
        res.append(("If stmt", c_ast.If(base, base, base)))
        res.append(("Case", c_ast.Case(base, [base, base])))
        res.append(("Default", c_ast.Default([base])))
        res.append(("Label", c_ast.Label("l", base)))
        res.append(("While", c_ast.While(base, base)))
        res.append(("DoWhile", c_ast.DoWhile(base, base)))
        res.append(("For", c_ast.For(base, base, base, base)))
        res.append(("Switch", c_ast.Switch(base, base)))
        res.append(("StaticAssert", c_ast.StaticAssert(base, base)))
        res.append(("Alignas", c_ast.Alignas(base)))
        res.append(("Enumerator", c_ast.Enumerator("E", base)))
    # statements with missing parts
    res.append(("If no cond", c_ast.If(None, c_ast.EmptyStatement(), None)))
    res.append(("If none", c_ast.If(None, None, None)))
    res.append(("While none", c_ast.While(None, c_ast.EmptyStatement())))
    res.append(("DoWhile none", c_ast.DoWhile(None, c_ast.EmptyStatement())))
    res.append(("For none", c_ast.For(None, None, None, c_ast.EmptyStatement())))
    res.append(("For decllist", c_ast.For(c_ast.DeclList([decl("i", tdecl("i"), init=K("0")),
                                                            decl("j", tdecl("j"))]),
                                          None, None, c_ast.Compound([]))))
    res.append(("DeclList one", c_ast.DeclList([decl("i", tdecl("i"))])))
    res.append(("DeclList empty", c_ast.DeclList([])))
    res.append(("DeclList three", c_ast.DeclList([
        decl("i", tdecl("i"), init=K("0")),
        decl("j", c_ast.PtrDecl([], tdecl("j")), bitsize=K("3")),
        decl("k", tdecl("k"), init=c_ast.InitList([K("1")]))])))
    res.append(("Return none", c_ast.Return(None)))
    res.append(("StaticAssert no msg", c_ast.StaticAssert(K("1"), None)))
    res.append(("Compound none", c_ast.Compound(None)))
    res.append(("Compound empty", c_ast.Compound([])))
    res.append(("Compound nested", c_ast.Compound([c_ast.Compound([c_ast.Compound(None)]),
                                                    c_ast.If(a, c_ast.Compound([b]), c_ast.Compound([c])),
                                                    c_ast.Pragma("p"), c_ast.Goto("l"),
                                                    c_ast.Break(), c_ast.Continue(),
                                                    c_ast.EmptyStatement(),
                                                    c_ast.Typedef("T", [], ["typedef"], tdecl("T")),
                                                    c_ast.StaticAssert(K("1"), None),
                                                    c_ast.Label("l", c_ast.EmptyStatement())])))
    res.append(("Case empty", c_ast.Case(K("1"), [])))
    res.append(("Default empty", c_ast.Default([])))
    res.append(("Case none stmts", c_ast.Case(K("1"), None)))
    res.append(("Label compound", c_ast.Label("l", c_ast.Compound([a]))))
    res.append(("Label if", c_ast.Label("l", c_ast.If(a, b, None))))
    res.append(("Pragma empty", c_ast.Pragma("")))
    res.append(("Pragma none", c_ast.Pragma(None)))
    res.append(("Pragma str", c_ast.Pragma("omp x")))
    res.append(("Pragma node", c_ast.Pragma(K('"omp x"', "string"))))
    res.append(("Pragma ID node", c_ast.Pragma(a)))
    res.append(("EllipsisParam", c_ast.EllipsisParam()))
    res.append(("ParamList", c_ast.ParamList([decl("a", tdecl("a")), c_ast.EllipsisParam()])))
    res.append(("ParamList empty", c_ast.ParamList([])))
    res.append(("ExprList empty", c_ast.ExprList([])))
    res.append(("ExprList nested", c_ast.ExprList([c_ast.ExprList([a, b]), c_ast.InitList([c]),
                                                    c_ast.Compound([a])])))
    res.append(("InitList empty", c_ast.InitList([])))
    res.append(("InitList nested", c_ast.InitList([c_ast.ExprList([a, b]), c_ast.InitList([c]),
                                                    c_ast.NamedInitializer([a], c_ast.InitList([b]))])))
    res.append(("NamedInitializer no names", c_ast.NamedInitializer([], a)))
    res.append(("IdentifierType", c_ast.IdentifierType(["unsigned", "long"])))
    res.append(("IdentifierType empty", c_ast.IdentifierType([])))
    res.append(("Constant", K("0x1F")))
    # structs / unions / enums
    res.append(("Struct no decls", c_ast.Struct("S", None)))
    res.append(("Struct empty decls", c_ast.Struct("S", [])))
    res.append(("Struct anon", c_ast.Struct(None, [decl("a", tdecl("a"))])))
    res.append(("Struct members", c_ast.Struct("S", [decl("a", tdecl("a"), bitsize=K("3")),
                                                      decl(None, c_ast.Struct(None, [decl("x", tdecl("x"))])),
                                                      c_ast.Pragma("pack"),
                                                      c_ast.StaticAssert(K("1"), None)])))
    res.append(("Union no decls", c_ast.Union("U", None)))
    res.append(("Union empty decls", c_ast.Union(None, [])))
    res.append(("Union members", c_ast.Union("U", [decl("a", tdecl("a")),
                                                    decl("s", c_ast.TypeDecl("s", [], None,
                                                                             c_ast.Struct("In", [decl("q", tdecl("q"))])))])))
    res.append(("Enum no values", c_ast.Enum("E", None)))
    res.append(("Enum empty list", c_ast.Enum("E", c_ast.EnumeratorList([]))))
    res.append(("Enum one", c_ast.Enum(None, c_ast.EnumeratorList([c_ast.Enumerator("A", None)]))))
    res.append(("Enum values", c_ast.Enum("E", c_ast.EnumeratorList([
        c_ast.Enumerator("A", None), c_ast.Enumerator("B", K("0")),
        c_ast.Enumerator("C", B("+", ID("B"), K("1")))]))))
    res.append(("EnumeratorList direct", c_ast.EnumeratorList([c_ast.Enumerator("A", None),
                                                                c_ast.Enumerator("B", K("2"))])))
    res.append(("Enum in compound in struct",
                c_ast.Compound([decl("s", c_ast.TypeDecl("s", [], None, c_ast.Struct("S", [
                    decl("e", c_ast.TypeDecl("e", ["const"], None, c_ast.Enum("E", c_ast.EnumeratorList([
                        c_ast.Enumerator("A", None), c_ast.Enumerator("B", None)])))),
                    decl("u", c_ast.TypeDecl("u", [], None, c_ast.Union(None, [])))])))])))
    res.append(("Struct wrong class via Enum visit", c_ast.Enum("E", c_ast.EnumeratorList(None))))
    # decls
    res.append(("Decl all", decl("v", c_ast.PtrDecl(["const"], tdecl("v", ["char"], ["volatile"])),
                                 quals=["volatile"], storage=["static", "extern"],
                                 funcspec=["inline", "_Noreturn"],
                                 align=[c_ast.Alignas(K("8")), c_ast.Alignas(c_ast.Typename(None, [], None, tdecl(None)))],
                                 init=K("0"), bitsize=K("2"))))
    res.append(("Decl tag quals struct", decl(None, c_ast.Struct("S", None), quals=["const", "volatile"])))
    res.append(("Decl tag quals union", decl(None, c_ast.Union("U", []), quals=["const"])))
    res.append(("Decl tag quals enum", decl(None, c_ast.Enum("E", None), quals=["const"],
                                            storage=["static"])))
    res.append(("Decl quals not tag", decl("x", tdecl("x"), quals=["const"])))
    res.append(("Decl none name typedecl", decl(None, tdecl(None))))
    res.append(("Typedef storage", c_ast.Typedef("T", [], ["typedef"], c_ast.PtrDecl([], tdecl("T")))))
    res.append(("Typedef no storage", c_ast.Typedef("T", ["const"], [], tdecl("T", quals=["const"]))))
    res.append(("Typedef two storage", c_ast.Typedef("T", [], ["extern", "typedef"], tdecl("T"))))
    res.append(("Typename", c_ast.Typename(None, [], None, c_ast.PtrDecl([], tdecl(None)))))
    res.append(("Typename named", c_ast.Typename("n", [], None, c_ast.PtrDecl([], tdecl("n")))))
    # _generate_type shapes
    P, A, F = c_ast.PtrDecl, c_ast.ArrayDecl, c_ast.FuncDecl

    def arr(t, dim=None, dq=None):
        return A(t, dim, dq or [])

    def fn(t, args=None):
        return F(args, t)

    params = c_ast.ParamList([decl("p", tdecl("p")), c_ast.EllipsisParam()])
    builders = {
        "P": lambda t: P([], t),
        "Pq": lambda t: P(["const", "volatile"], t),
        "A": lambda t: arr(t),
        "Ad": lambda t: arr(t, K("3")),
        "Aq": lambda t: arr(t, K("3"), ["static", "const"]),
        "Aqn": lambda t: arr(t, None, ["const"]),
        "F": lambda t: fn(t),
        "Fa": lambda t: fn(t, params),
    }
    keys = sorted(builders)
    combos = [()] + [(k,) for k in keys] + list(itertools.product(keys, repeat=2))
    combos += [c3 for c3 in itertools.product(["P", "Pq", "Ad", "Fa"], repeat=3)]
    for combo in combos:
        for name in ("v", None, ""):
            t = tdecl(name, ["int"], ["const"] if "Pq" in combo else [])
            for k in reversed(combo):
                t = builders[k](t)
            label = "type %s name=%r" % ("-".join(combo) or "plain", name)
            res.append((label + " Decl", decl(name, t)))
            res.append((label + " bare", t))
            res.append((label + " Typename", c_ast.Typename(name, [], None, t)))
            res.append((label + " Cast", c_ast.Cast(c_ast.Typename(None, [], None, t), a)))
            res.append((label + " Typedef", c_ast.Typedef(name, [], ["typedef"], t)))
    res.append(("type of struct", c_ast.TypeDecl("s", ["const"], None, c_ast.Struct("S", [decl("a", tdecl("a"))]))))
    res.append(("type of enum ptr", P([], c_ast.TypeDecl("e", [], None, c_ast.Enum("E", None)))))
    res.append(("generate_type via Decl node", decl("o", decl("i", tdecl("i"), storage=["static"]))))
    res.append(("generate_type IdentifierType direct", decl("o", c_ast.IdentifierType(["int"]))))
    res.append(("generate_type Struct direct", decl("o", c_ast.Struct("S", None))))
    res.append(("generate_type Typename inside", decl("o", c_ast.Typename("x", [], None, P([], tdecl("x"))))))
    res.append(("generate_type Typename inside cast", c_ast.Cast(
        c_ast.Typename(None, [], None, c_ast.Typename("x", [], None, P([], tdecl("x")))), a)))
    res.append(("generate_type other node", decl("o", a)))
    res.append(("generate_type None", decl("o", None)))
    res.append(("PtrDecl to None", P([], None)))
    res.append(("ArrayDecl of ID", arr(a, K("1"))))
    # FuncDef / FileAST
    body = c_ast.Compound([c_ast.Return(K("0"))])
    fdecl = decl("f", fn(tdecl("f"), c_ast.ParamList([ID("a"), ID("b")])))
    res.append(("FuncDef K&R", c_ast.FuncDef(fdecl, [decl("a", tdecl("a")), decl("b", tdecl("b", ["char"]))], body)))
    res.append(("FuncDef no knr", c_ast.FuncDef(fdecl, None, body)))
    res.append(("FuncDef empty knr", c_ast.FuncDef(fdecl, [], body)))
    res.append(("FuncDef body none", c_ast.FuncDef(fdecl, None, None)))
    res.append(("FuncDef nested in compound",
                c_ast.Compound([c_ast.Compound([c_ast.FuncDef(fdecl, [decl("a", tdecl("a"))], body), a])])))
    res.append(("FuncDef knr raising", c_ast.FuncDef(fdecl, [decl("a", tdecl("a")), 5], body)))
    res.append(("FileAST mix", c_ast.FileAST([c_ast.Pragma("once"), decl("x", tdecl("x")),
                                              c_ast.FuncDef(fdecl, None, body),
                                              c_ast.Typedef("T", [], ["typedef"], tdecl("T")),
                                              c_ast.StaticAssert(K("1"), K('"m"', "string")),
                                              c_ast.Pragma(K('"p"', "string")),
                                              c_ast.Struct("S", None), a])))
    res.append(("FileAST empty", c_ast.FileAST([])))
    res.append(("FileAST none", c_ast.FileAST(None)))
    # errors
    res.append(("visit None", None))
    res.append(("visit int", 5))
    res.append(("UnaryOp none op", U(None, a)))
    res.append(("UnaryOp int op", U(5, a)))
    res.append(("UnaryOp none expr", U("-", None)))
    res.append(("UnaryOp sizeof none expr", U("sizeof", None)))
    res.append(("Enumerator bad name", c_ast.Enumerator(None, None)))
    res.append(("Struct bad member", c_ast.Struct("S", [5])))
    res.append(("Struct str decls", c_ast.Struct("S", "ab")))
    res.append(("Enum bad values", c_ast.Enum("E", 5)))
    res.append(("Compound bad", c_ast.Compound([5])))
    res.append(("Compound deep raise", c_ast.Compound([c_ast.Compound([c_ast.If(a, c_ast.Compound([5]), None)])])))
    res.append(("Struct deep raise", c_ast.Compound([decl("s", c_ast.TypeDecl("s", [], None, c_ast.Struct("S", [5])))])))
    res.append(("Goto none", c_ast.Goto(None)))
    res.append(("Label none", c_ast.Label(None, a)))
    res.append(("ID none", ID(None)))
    res.append(("StructRef none type", c_ast.StructRef(a, None, b)))
    res.append(("Cast none", c_ast.Cast(None, a)))
    res.append(("Cast no expr", c_ast.Cast(c_ast.Typename(None, [], None, tdecl(None)), None)))
    res.append(("Ternary none", c_ast.TernaryOp(None, None, None)))
    res.append(("DeclList none", c_ast.DeclList(None)))
    res.append(("DeclList non decl tail", c_ast.DeclList([decl("a", tdecl("a")), a])))
    res.append(("Typedef none storage", c_ast.Typedef("T", [], None, tdecl("T"))))
    res.append(("Decl none type with quals", decl("x", None, quals=["const"])))
    res.append(("TypeDecl none type", c_ast.TypeDecl("x", [], None, None)))
    res.append(("TypeDecl none quals", c_ast.TypeDecl("x", None, None, c_ast.IdentifierType(["int"]))))
    res.append(("PtrDecl none quals", P(None, tdecl("x"))))
    res.append(("ArrayDecl none dim_quals", A(tdecl("x"), K("1"), None)))
    res.append(("NamedInitializer none", c_ast.NamedInitializer(None, a)))
    res.append(("IdentifierType none", c_ast.IdentifierType(None)))
    res.append(("IdentifierType non-str", c_ast.IdentifierType([1, 2])))
    res.append(("Alignas none", c_ast.Alignas(None)))
    res.append(("BinaryOp bad-op child reduce", B("+", B("??", a, b), c)))
    res.append(("BinaryOp bad-op parent reduce", B("??", B("+", a, b), c)))
    res.append(("BinaryOp bad right", B("+", a, B("??", B("**", a, b), c))))
    return res


def helper_calls():
    """Direct calls of the generator's helper entry points."""
    section("helper calls")
    g = c_generator.CGenerator()
    a, b = ID("a"), ID("b")
    for lvl in (0, 3, 4):
        g.indent_level = lvl
        print(repr(g._make_indent()))
        for add in (False, True):
            for node in [a, c_ast.Compound([a]), c_ast.If(a, b, None), c_ast.Break(),
                         c_ast.Pragma("x"), c_ast.Typedef("T", [], ["typedef"], tdecl("T")),
                         c_ast.FuncDef(decl("f", c_ast.FuncDecl(None, tdecl("f"))), None,
                                       c_ast.Compound(None)),
                         c_ast.Label("l", a), c_ast.Case(a, [b]), c_ast.InitList([a]),
                         c_ast.NamedInitializer([a], b), c_ast.Typename(None, [], None, tdecl(None)),
                         decl("d", tdecl("d")), c_ast.DeclList([decl("d", tdecl("d"))]),
                         c_ast.Struct("S", [decl("d", tdecl("d"))]), c_ast.EmptyStatement(),
                         c_ast.Return(None), c_ast.Switch(a, c_ast.Compound([c_ast.Default([b])]))]:
                g.indent_level = lvl
                try:
                    print(repr(g._generate_stmt(node, add_indent=add)), g.indent_level)
                except Exception as e:  # noqa: BLE001
                    print("EXC", type(e).__name__, e, g.indent_level)
    g.indent_level = 0
    for node in [a, K("1"), c_ast.ArrayRef(a, b), c_ast.StructRef(a, ".", b),
                 c_ast.FuncCall(a, None), c_ast.BinaryOp("+", a, b), c_ast.UnaryOp("-", a),
                 c_ast.InitList([a]), c_ast.ExprList([a, b]), c_ast.Compound([a]), None]:
        try:
            print(g._is_simple_node(node), repr(g._parenthesize_unless_simple(node)),
                  repr(g._parenthesize_if(node, lambda d: True)),
                  repr(g._parenthesize_if(node, lambda d: False)),
                  repr(g._visit_expr(node)))
        except Exception as e:  # noqa: BLE001
            print("EXC", type(e).__name__, e)
    t = c_ast.PtrDecl([], c_ast.ArrayDecl(tdecl("n"), K("2"), []))
    for emit in (True, False):
        print(repr(g._generate_type(t, emit_declname=emit)))
        print(repr(g._generate_type(t, [], emit)))
        print(repr(g._generate_type(tdecl("n"), [c_ast.PtrDecl([], None)], emit)))
        print(repr(g._generate_type(tdecl("n"), [c_ast.PtrDecl([], None),
                                                 c_ast.FuncDecl(None, None),
                                                 c_ast.PtrDecl(["const"], None),
                                                 c_ast.ArrayDecl(None, None, [])], emit)))
        print(repr(g._generate_type(tdecl("n"), [ID("junk"), c_ast.ArrayDecl(None, None, [])], emit)))
    print(repr(g._generate_decl(decl("d", t, storage=["static"]))))
    for name in ("struct", "union", "enum", "other"):
        for node in (c_ast.Struct("S", []), c_ast.Union("U", None),
                     c_ast.Enum("E", None)):
            g.indent_level = 2
            try:
                print(name, repr(g._generate_struct_union_enum(node, name)), g.indent_level)
            except Exception as e:  # noqa: BLE001
                print(name, "EXC", type(e).__name__, e, g.indent_level)
    g.indent_level = 2
    print(repr(g._generate_struct_union_body([decl("d", tdecl("d"))])))
    print(repr(g._generate_struct_union_body([])))
    print(repr(g._generate_enum_body([c_ast.Enumerator("A", None)])))
    print(repr(g._generate_enum_body([])))
    print(sorted(c_generator.CGenerator.precedence_map.items()))

    class Sub(c_generator.CGenerator):
        """A subclass using the documented extension points."""

        def visit_ID(self, n):
            return "<" + n.name + ">"

        def _make_indent(self):
            return "\t" * (self.indent_level // 2)

    src = ("int f(int a) { if (a) { return a + 1; } else while (a) a--; "
           "switch (a) { case 1: break; default: a = (a + 2) * 3; } "
           "struct S { int q; enum { A, B = 2 } e; } s; return 0; }")
    ast = c_parser.CParser().parse(src)
    print(Sub().visit(ast))
    print(Sub(reduce_parentheses=True).visit(ast))


def main():
    for path in c_files():
        with open(path, encoding="utf-8", errors="replace") as fh:
            text = fh.read()
        run_source("FILE " + path, text, path)
    for i, s in enumerate(SNIPPETS):
        run_source("SNIPPET %d: %r" % (i, s), s)
    for i, s in enumerate(generated_snippets()):
        run_source("GEN %d: %r" % (i, s), s)
    for i, (label, node) in enumerate(constructed_nodes()):
        run_node("NODE %d: %s" % (i, label), node)
    helper_calls()


if __name__ == "__main__":
    main()
