"""Behaviour digest for pycparser (focus: c_lexer.py).

Run as:  cd <repo root> && /venv/bin/python equiv.py > out.txt

For every input prints (a) the raw token stream produced by CLexer together
with every error-callback invocation, and (b) the result of CParser.parse():
the AST dump with coordinates and the regenerated C, or the exception type
and message.  Fully deterministic (no randomness, sorted file lists).
"""
import glob
import io
import os
import sys

sys.path.insert(0, os.getcwd())

from pycparser import c_generator, c_parser  # noqa: E402
from pycparser.c_lexer import CLexer  # noqa: E402

TYPEDEF_NAMES = {"mytype", "TT", "size_t", "Node"}


class _Stop(Exception):
    pass


def lex_digest(text, filename="<lex>", stop_on_error=False, limit=5000):
    """Token stream + error callbacks + brace callbacks, as lines."""
    out = []

    def on_error(msg, line, col):
        out.append(f"  ERR {msg!r} @{line}:{col}")
        if stop_on_error:
            raise _Stop()

    def on_lbrace():
        out.append("  CB lbrace")

    def on_rbrace():
        out.append("  CB rbrace")

    def lookup(name):
        out.append(f"  CB lookup {name!r}")
        return name in TYPEDEF_NAMES

    lx = CLexer(on_error, on_lbrace, on_rbrace, lookup)
    lx.input(text, filename)
    count = 0
    try:
        while True:
            tok = lx.token()
            if tok is None:
                break
            out.append(
                f"  TOK {tok.type} {tok.value!r} {tok.lineno}:{tok.column} "
                f"file={tok.filename!r} lexfile={lx.filename!r}"
            )
            count += 1
            if count > limit:
                out.append("  ... limit")
                break
    except _Stop:
        out.append("  STOP")
    except Exception as e:  # pragma: no cover
        out.append(f"  EXC {type(e).__name__}: {e}")
    out.append(
        f"  END pos={lx._pos} lineno={lx._lineno} line_start={lx._line_start} "
        f"filename={lx.filename!r} pending={lx._pending_tok!r}"
    )
    # one more call after the end: must stay None
    try:
        out.append(f"  AFTER {lx.token()!r}")
    except Exception as e:
        out.append(f"  AFTER-EXC {type(e).__name__}: {e}")
    return out


def parse_digest(text, filename="<snip>"):
    out = []
    parser = c_parser.CParser()
    try:
        ast = parser.parse(text, filename)
    except Exception as e:
        out.append(f"  PARSE-EXC {type(e).__name__}: {e}")
        return out
    buf = io.StringIO()
    ast.show(buf=buf, showcoord=True, attrnames=True, nodenames=True)
    out.append("  AST:")
    out.extend("    " + l for l in buf.getvalue().splitlines())
    try:
        gen = c_generator.CGenerator().visit(ast)
        out.append("  GEN:")
        out.extend("    " + l for l in gen.splitlines())
    except Exception as e:
        out.append(f"  GEN-EXC {type(e).__name__}: {e}")
    return out


def report(label, text, filename="<snip>", lex=True, parse=True):
    print(f"=== {label}: {text!r}" if len(text) < 400 else f"=== {label}: <{len(text)} chars>")
    if lex:
        print(" LEX (continue on error):")
        print("\n".join(lex_digest(text, filename)))
        print(" LEX (stop on first error):")
        print("\n".join(lex_digest(text, filename, stop_on_error=True)))
    if parse:
        print(" PARSE:")
        print("\n".join(parse_digest(text, filename)))


# ---------------------------------------------------------------------------
# 1. Files
# ---------------------------------------------------------------------------
def files():
    names = []
    for pat in (
        "tests/c_files/*.c",
        "tests/c_files/*.h",
        "tests/c_files/**/*.h",
        "tests/c_files/**/*.c",
        "examples/c_files/*.c",
        "examples/c_files/*.h",
    ):
        names.extend(glob.glob(pat, recursive=True))
    return sorted(set(names))


# ---------------------------------------------------------------------------
# 2. Snippets
# ---------------------------------------------------------------------------
def snippets():
    s = []

    # -- plain declarations / expressions / statements
    s += [
        "int a;",
        "int a = 1, b = 2;",
        "typedef int mytype; mytype x;",
        "typedef int TT; TT f(TT a) { TT b = a; return b; }",
        "typedef int TT; void f(void) { int TT; TT = 3; }",
        "typedef char TT; void f(void) { { TT x; } { int TT; } TT y; }",
        "void f(void) { x = a + b * c - d / e % f; }",
        "void f(void) { x = a << 2 >> 1; x <<= 3; x >>= 4; }",
        "void f(void) { x = a && b || !c; x = a & b | c ^ ~d; }",
        "void f(void) { x += 1; x -= 1; x *= 2; x /= 2; x %= 2; x &= 1; x |= 1; x ^= 1; }",
        "void f(void) { x = a == b; x = a != b; x = a <= b; x = a >= b; x = a < b; x = a > b; }",
        "void f(void) { x++; ++x; x--; --x; p->q = r.s; }",
        "void f(void) { x = a ? b : c; }",
        "void f(int a, ...) { }",
        "int a[10]; int b[] = {1, 2, 3};",
        "struct s { int a : 3; unsigned b : 1; };",
        "struct s v = { .a = 1, .b = { 2, 3 } };",
        "int a[3] = { [0] = 1, [2] = 3 };",
        "void f(void) { for (i = 0; i < 10; i++) { continue; } while (1) break; do { } while (0); }",
        "void f(void) { switch (x) { case 1: break; default: return; } goto l; l: ; }",
        "void f(void) { if (a) b; else c; }",
        "void f(void) { x = sizeof(int); y = sizeof x; z = _Alignof(int); }",
        "void f(void) { x = offsetof(struct s, a.b[1]); }",
        "_Static_assert(1, \"msg\");",
        "_Noreturn void f(void);",
        "_Thread_local int x; _Atomic int y; _Atomic(int) z;",
        "_Alignas(8) int x; _Alignas(double) char c;",
        "_Bool b; _Complex double c; __int128 i;",
        "static inline const volatile unsigned long long int x;",
        "extern register auto short signed s;",
        "int * restrict p;",
        "union u { int a; float b; }; enum e { A, B = 2, C };",
        "void f(void) { _Pragma(\"omp parallel\") x = 1; }",
        "_Pragma(\"once\") int x;",
        "int $dollar; int a$b; int _; int __x1;",
        "int auto_; int autox; int Int; int _bool; int _BOOL; int _Boolx;",
        "int x = (int) 3.5;",
        "void (*fp)(int, char *);",
    ]

    # -- integer constants with all suffixes
    for body in ("0", "1", "42", "017", "0x1F", "0XaB", "0b101", "0B1"):
        for suf in ("", "u", "U", "l", "L", "ul", "UL", "lu", "LU", "ll", "LL",
                    "ull", "ULL", "llu", "LLU", "uLL", "Ull", "lL", "uu", "lul"):
            s.append(f"int x = {body}{suf};")
    s += [
        "int x = 08;", "int x = 019;", "int x = 0779;", "int x = 09u;",
        "int x = 0x;", "int x = 0b;", "int x = 0b2;", "int x = 0xg;",
        "int x = 1a;", "int x = 00;", "int x = 007;",
    ]

    # -- floating constants
    for lit in ("1.", ".5", "1.5", "1e5", "1E-5", "1.e+5", ".5e3", "1.5f", "1.5F",
                "1.5l", "1.5L", "1e5f", "0.0", "00.5", "09.5", "0x1p3", "0x1.8p-2",
                "0x.8P+1", "0x1.p0", "0x1p3f", "0x1p3L", "0x1.8", "1e", "1e+",
                "1.5e", "0x1p", "1..2", "1.2.3", ".e5", "1f", "1.5ff"):
        s.append(f"double d = {lit};")
    s += ["void f(void) { x = a.b; x = a . b; x = 1.e1.e; x = a...b; x = a.. .b; }"]

    # -- char constants
    for lit in ("'a'", "'\\n'", "'\\''", "'\\\\'", "'\\0'", "'\\123'", "'\\x1f'",
                "'\\xZ'", "'\\x'", "'\\8'", "'\\99'", "'\"'", "'ab'", "'abcd'",
                "'abcde'", "''", "'\\q'", "'\\%'", "'\\ '", "'a", "'ab", "'\\'",
                "'a\nb'", "'\\x1g'", "'\\12a'", "'\\.'", "'\\?'", "'\\a\\b'",
                "'$'", "'\t'", "'\\(a'", "'a\\(a'"):
        for pre in ("", "L", "u8", "u", "U"):
            if pre and lit in ("'a", "'ab", "''"):
                continue
            s.append(f"int c = {pre}{lit};")
    s += ["int c = u8;", "int c = L;", "int c = u8x'a';", "int c = Lu'a';", "int c = uU'a';"]

    # -- string literals
    for lit in ('""', '"abc"', '"a\\nb"', '"a\\"b"', '"\\\\"', '"\\x41\\101"',
                '"..\\..\\dir\\file.h"', '"\\q"', '"a\\%b"', '"a\\(b\\)c"', '"abc',
                '"a\nb"', '"\\', '"a" "b"', '"a\\', '"\\8"', '"tab\there"',
                '"a\\ b"', '"\'"', '"/* not a comment */"', '"// nor this"'):
        for pre in ("", "L", "u8", "u", "U"):
            s.append(f"char *s = {pre}{lit};")
    s += [
        'char *s = "a" L"b" u8"c";',
        'char *s = L"a" L"b";',
        'wchar_t *s = L"x" "y";',
    ]

    # -- comments (unsupported), illegal characters
    s += [
        "int a; /* c */ int b;", "int a; // c\nint b;", "/**/", "//", "/ /", "/ *",
        "int a = b /c;", "int a = b /= c;", "int a = b / *p;",
        "int @a;", "int a` b;", "int a\\b;", "int \x01a;", "int a\x7f;", "int café;",
        "int a\r\nb;", "\r", "@", "`@`",
    ]

    # -- whitespace / newlines / columns
    s += [
        "", " ", "\n", "\n\n\n", "\t\v\f ", "int\ta\v;\f", "int\n\n  a\n ;\n",
        "   int   a  ;   ", "int a;\n\n\n   int b;\n\tint c;", "\n\n  @",
        "int a;\n  'x\n int b;",
    ]

    # -- # / #line / #pragma handling
    s += [
        "#", "# ", "#\n", "##", "# #", "#@", "#x", "# x", "#define X 1", "#include <a.h>",
        "a # b", "int a; # \nint b;",
        "#line 10\nint a;", "#line 10 \"f.c\"\nint a;", "# 10\nint a;", "# 10 \"f.c\"\nint a;",
        "#  line  20   \"g.h\"  \nint a;", "#\tline\t20\t\"g.h\"\t\nint a;",
        "# 1 \"file.h\" 3\nint a;", "#line 10 \"include/me.h\" 1 2 3\nint a;",
        "#line 66 \"kwas\\df.h\"\nint a;", "#line 5 \"..\\..\\dir\\file.h\"\nint a;",
        "#line \"file.h\"\nint a;", "#line df\nint a;", "#line\nint a;", "#line \nint a;",
        "#line", "#line 7", "#line 7 \"x.c\"", "# 7 \"x.c\" 1", "# 7 \"x.c\" 1 ",
        "#line 10 20\nint a;", "#line 10 x\nint a;", "#line 10 \"a.c\" x\nint a;",
        "#line 10 \"a.c\" 1 x\nint a;", "#line 10 \"a.c\nint a;", "#line 10 \"a\\qc\"\nint a;",
        "#line 10\"f.c\"\nint a;", "#line10\nint a;", "#line 10\"f.c\"2\nint a;",
        "#line 010 \"z.c\"\nint a;", "#line 0\nint a;", "#line 000\nint a;", "#line 1e3\nint a;",
        "#line 10 \"\"\nint a;", "#line 10 \"\"\"\"\nint a;", "#line 10 \"a\" \"b\"\nint a;",
        "#line 10 L\"a\"\nint a;", "#line -1\nint a;", "#line 1.5\nint a;", "#line 0x10\nint a;",
        "# 3 4\nint a;", "#3\nint a;", "#   3\nint a;", "# 3 \"q.c\"\n@", "# 3 \"q.c\"\n\n\n  @",
        "#line 3 \"q.c\"\nint a;\n#line 100 \"r.c\"\nint b;\n# 7\nint c;",
        "int a;\n#line 50\nint b; @",
        "#line " + "9" * 5000 + "\nint a;",
        "#line " + "9" * 4000 + "\nint a;\n@",
        "#linex 5\nint a;", "#line_ 5\nint a;", "#line5\nint a;", "#line\t5\nint a;",
        "#lin 5\nint a;", "# line\nint a;", "#line line 5\nint a;", "#line  line\nint a;",
        "# 5line\nint a;", "int a; #line 5\nint b;", "int a; # 5 \"m.c\"\nint b; @",
        "#line 5\r\nint a;", "#line 5 \"a.c\"\r\nint a;", "#line 5 \v\nint a;",
        "#pragma", "#pragma\n", "#pragma once", "#pragma once\nint a;", "# pragma once\nint a;",
        "#\tpragma {pack: 2, smack: 3}\nint a;", "# pragma omp parallel private(th_id)\nint a;",
        "#pragma   \nint a;", "#pragma   x   \nint a;", "#pragma\tx\t\nint a;",
        "#pragmax\nint a;", "#pragma_x\nint a;", "#pragma9\nint a;", "#pragma(x)\nint a;",
        "#pragma@\nint a;", "#pragma \"s\" 'c' /* */ // \\ @\nint a;",
        "#pragma a\n#pragma b\n#pragma\n#pragma c", "int a;\n#pragma x\n@",
        "int a; #pragma inl\nint b;", "  #pragma ind\n  #pragma ind2\n@",
        "void f(void) {\n#pragma omp for\n  for (;;) ;\n}",
        "struct s {\n#pragma pack(1)\n int a;\n#pragma pack()\n};",
        "void f(void) { if (x)\n#pragma bar\n  y = 1; }",
        "#pragma x\r\nint a;", "#pragma \v x\nint a;", "#pragma x y  z",
        "#line 20 \"p.c\"\n#pragma after line\nint a;\n@",
        "#pragma before\n#line 20 \"p.c\"\nint a;\n@",
        "# pragma", "#  pragma  ", "#pragm", "#prag ma", "# pragmatic x\nint a;",
    ]

    # -- brace callbacks / scopes seen through the lexer
    s += [
        "{", "}", "{}", "{{}}", "}{", "int a[] = {1, {2}};",
        "typedef int TT; void f(void) { TT a; { int TT; } }",
        "void f(void) { int mytype; } mytype x;",
        "typedef int mytype; struct s { mytype a; }; mytype f(mytype);",
    ]

    # -- every keyword and every fixed token, one per input and all together
    kws = ("auto break case char const continue default do double else enum extern "
           "float for goto if inline int long register offsetof restrict return short "
           "signed sizeof static struct switch typedef union unsigned void volatile "
           "while __int128 _Bool _Complex _Noreturn _Thread_local _Static_assert "
           "_Atomic _Alignof _Alignas _Pragma").split()
    for k in kws:
        s.append(k)
        s.append(k.upper() + " " + k.lower() + " " + k + "x _" + k)
    s.append(" ".join(kws))
    ops = ("... <<= >>= ++ -- -> && || << >> <= >= == != *= /= %= += -= &= |= ^= = + - * "
           "/ % | & ~ ^ ! < > ? ( ) [ ] { } , . ; :").split()
    for o in ops:
        s.append(o)
    s.append(" ".join(ops))
    s.append("".join(ops))
    s += ["....", ".....", "......", "<<<=", ">>>=", ">>>>=", "+++", "+++++", "---", "--->",
          "->>", "&&&", "|||", "===", "!==", "<=>", "<:", ":>", "%:", "..", ". ..", ".1.", "1.."]

    # -- systematic: every pair of "interesting" fragments glued together
    frags = ["a", "1", ".", "..", "'", '"', "#", "/", "*", "0x", "L", "u8", "\\", "\n", "{", "+", "-", ">", "="]
    for x in frags:
        for y in frags:
            s.append(x + y)
    return s


def main():
    for name in files():
        with open(name) as f:
            text = f.read()
        print(f"=== FILE {name}")
        print(" LEX:")
        print("\n".join(lex_digest(text, name, limit=100000)))
        print(" PARSE:")
        print("\n".join(parse_digest(text, name)))

    snips = snippets()
    print(f"### {len(snips)} snippets")
    for i, text in enumerate(snips):
        report(f"S{i:04d}", text)

    # module-level tables of the lexer (contents and order are observable)
    from pycparser import c_lexer as L
    print("### tables")
    print("keyword_map", sorted(L._keyword_map.items()))
    print("regex_master", L._regex_master.pattern)
    print("regex_actions", [(k, v[0].name if hasattr(v[0], 'name') else v[0], v[1])
                            for k, v in L._regex_actions.items()])
    print("fixed", [(k, [(e.tok_type, e.literal) for e in v])
                    for k, v in L._fixed_tokens_by_first.items()])
    print("line_pattern", L._line_pattern.pattern, "pragma_pattern", L._pragma_pattern.pattern)


if __name__ == "__main__":
    main()
