"""Behaviour digest for pycparser (statements / external declarations /
token helpers / scopes / pragma / static_assert area of c_parser.py).

Run as:  cd <repo root> && /venv/bin/python equiv.py > out.txt

For every input prints either the AST dump with coordinates plus the
regenerated C, or the exception type and message.  Fully deterministic.
"""

import io
import os
import sys

sys.path.insert(0, os.getcwd())

from pycparser import c_parser, c_generator  # noqa: E402


def digest(label, text, filename="<in>"):
    print("=" * 72)
    print("INPUT", label)
    parser = c_parser.CParser()
    try:
        ast = parser.parse(text, filename)
    except Exception as e:  # noqa: BLE001
        print("EXC", type(e).__name__, str(e))
        return
    buf = io.StringIO()
    ast.show(buf=buf, showcoord=True, attrnames=True, nodenames=True)
    print(buf.getvalue())
    try:
        print("GEN")
        print(c_generator.CGenerator().visit(ast))
    except Exception as e:  # noqa: BLE001
        print("GENEXC", type(e).__name__, str(e))


def reuse_digest(label, texts):
    """Same parser object used for several parses in sequence."""
    print("=" * 72)
    print("REUSE", label)
    parser = c_parser.CParser()
    for i, text in enumerate(texts):
        try:
            ast = parser.parse(text, "r%d.c" % i)
        except Exception as e:  # noqa: BLE001
            print(i, "EXC", type(e).__name__, str(e))
            continue
        buf = io.StringIO()
        ast.show(buf=buf, showcoord=True, attrnames=True)
        print(i, "OK")
        print(buf.getvalue())


# ----------------------------------------------------------------------
# 1. files
# ----------------------------------------------------------------------
def file_inputs():
    out = []
    for d in ("tests/c_files", "examples/c_files"):
        for root, _dirs, files in sorted(os.walk(d)):
            for f in sorted(files):
                if f.endswith((".c", ".h")):
                    out.append(os.path.join(root, f))
    return out


def crude_strip(text):
    """Poor man's preprocessing so that files needing cpp still exercise the
    parser: drop comments and all directives except #pragma / #line."""
    import re

    text = re.sub(r"/\*.*?\*/", " ", text, flags=re.S)
    text = re.sub(r"//[^\n]*", "", text)
    lines = []
    for line in text.split("\n"):
        s = line.lstrip()
        if s.startswith("#") and not s[1:].lstrip().startswith(("pragma", "line")):
            lines.append("")
        else:
            lines.append(line)
    return "\n".join(lines)


# ----------------------------------------------------------------------
# 2. hand-written snippets
# ----------------------------------------------------------------------
TOPLEVEL = [
    "",
    " \n\t\n",
    ";",
    ";;;",
    "int x;",
    "int x, y = 2, *z;",
    "int x",
    "int",
    "int;",
    "x;",
    "x",
    "foo() { return 5; }",
    "foo() return 5;",
    "foo(a, b) int a; char b; { return a + b; }",
    "int foo(a, b) int a; char b; { return a + b; }",
    "int foo(a, b) int a; char b; return a;",
    "foo(a) int a;",
    "main() {}",
    "static foo() {}",
    "static inline foo(void) { }",
    "static x = 3;",
    "const y;",
    "extern z, w;",
    "int f(void);",
    "int f(void) {}",
    "int f(void) { }  int g(void) { return f(); }",
    "int (*fp)(int);",
    "int (*fp(int a))(int) { return 0; }",
    "int (f)(void) { return 1; }",
    "int *f(void) { return 0; }",
    "typedef int T; T f(T a) { T b = a; return b; }",
    "typedef int T; T;",
    "typedef int T; int T;",
    "typedef int T; void f(void) { int T; T = 3; }",
    "typedef int T; void f(void) { T T; }",
    "typedef int T; void f(T) { }",
    "typedef int T; void f(int T) { T = 1; }",
    "typedef int T; void f(void) { { int T; } T x; }",
    "typedef int T; void f(void) { for (int T = 0; T < 3; T++) ; T y; }",
    "int x; typedef int x;",
    "typedef int x; int x;",
    "typedef int x; typedef int x;",
    "void f(void) { typedef int x; int x; }",
    "void f(void) { int x; typedef int x; }",
    "void f(void) { int x; { typedef int x; x y; } x = 1; }",
    "enum E { A, B }; typedef int A;",
    "typedef int A; enum E { A, B };",
    "typedef int T; typedef T U; U f(U u) { return u; }",
    "typedef int T; T (x);",
    "typedef int T; int f(int (T));",
    "typedef int T; int f(int (x));",
    "typedef struct S { int a; } S; S s; struct S t;",
    "struct S;",
    "struct S { int a; };",
    "union U { int a; float b; } u;",
    "enum E { A = 1, B };",
    "enum E e;",
    "int a[3] = {1, 2, 3};",
    "int a = ;",
    "int a = 1",
    "int a = 1 int b;",
    "int f(void) { return 1; } ;",
    "int f(void) { return 1; } int",
    "typedef int f(void) { }",
    "typedef f() { }",
    "int f(void) int x; { }",
    "int f(a) int a; int b; { }",
    "int f(a) int a = 1; { }",
    "int f(a) a; { }",
    "int x; }",
    "}",
    "{",
    "{ }",
    "int f(void) { ",
    "int f(void) { { }",
    "int f(void) { } }",
    "int f(void) { int a; } } int y;",
    "#define X 1\nint x;",
    "int x;\n#include <a.h>\n",
    "# 3 \"foo.c\"\nint x;\nint y",
    "#line 10 \"bar.c\"\nint f(void) { return q; }\n",
    "#line 007 \"z.c\"\nint z;\n}",
    "int a;\n# 20 \"inc.h\" 1\nint b;\n# 2 \"main.c\" 2\nint c; c",
    "#pragma once\nint x;",
    "#pragma\nint x;",
    "#pragma omp parallel\n#pragma omp for\nint x;",
    "_Pragma(\"once\") int x;",
    "_Pragma(\"a\" \"b\") int x;",
    "_Pragma(L\"a\") int x;",
    "_Pragma(\"a\" int x;",
    "_Pragma \"a\") int x;",
    "_Pragma(1) int x;",
    "_Pragma(",
    "_Pragma",
    "int x; _Pragma(\"tail\")",
    "int x;\n#pragma tail",
    "_Static_assert(1, \"ok\");",
    "_Static_assert(1);",
    "_Static_assert(sizeof(int) == 4, \"a\" \"b\"); int x;",
    "_Static_assert(1, \"x\") int x;",
    "_Static_assert(1, 2);",
    "_Static_assert(, \"x\");",
    "_Static_assert 1;",
    "_Static_assert(1, \"x\"",
    "_Static_assert(1 \"x\");",
    "_Static_assert(a = 1, \"x\");",
    "_Static_assert",
    "int x = 08;",
    "int x = 'ab;",
    "int x = \"abc;",
    "int $x;",
    "int x @ y;",
    "int x = 1 ? 2;",
    "int f(void) { return 1 +; }",
    "int f(void) { return `; }",
    "\x0bint\x0cx;",
    "int f(int a, ...) { return a; }",
    "int f(...) { }",
    "void f(int a[static 3]) { }",
    "_Noreturn void die(void) { for (;;) ; }",
    "_Thread_local int t;",
    "_Alignas(8) int q;",
    "_Alignas(int) char c; c",
    "_Atomic(int) ai; _Atomic int aj;",
    "__int128 big;",
    "int f(void) { return 0; } int g(void) { return 1; } int h",
    "int f(void), g(void);",
    "int f(void), g(void) { }",
    "int x, f(void) { }",
    "int (x) = 1, (y);",
    "int (x) { }",
    "struct S { int a; } f(void) { struct S s; return s; }",
    "struct { int a; } f(void) { }",
    "enum { A } f(void) { return A; }",
    "void (*signal(int sig, void (*func)(int)))(int) { return func; }",
    "auto x = 1;",
    "register int r;",
    "int f(void) { } int f(void) { }",
    "int f; int f(void) { }",
    "typedef int f; int f(void) { }",
    "typedef int f; f(void) { }",
    "typedef int T; T() { }",
    "typedef int T; f(T t) { return t; }",
    "struct S { int a;\n#pragma pack(1)\n int b; _Pragma(\"q\") };",
    "struct S { _Static_assert(1, \"m\"); int a; };",
    "int f(void) { return 0; }\n#pragma between\nint g(void) { return 1; }\n_Pragma(\"end\")",
]

# Statement bodies: each is wrapped into  `void f(void) { <body> }`
STATEMENTS = [
    "",
    ";",
    ";;",
    "x;",
    "x = 1;",
    "x = 1, y = 2;",
    "x",
    "1 +;",
    "int a; a = 1;",
    "int a = 1, b = a;",
    "a = 1; int b;",
    "{ }",
    "{ { } }",
    "{ int a; { int b; } }",
    "{ ; }",
    "{",
    "{ } }",
    "if (x) y;",
    "if (x) y; else z;",
    "if (x) if (y) a; else b;",
    "if (x) { if (y) a; } else b;",
    "if (x) ; else ;",
    "if (x) { } else { }",
    "if x y;",
    "if (x y;",
    "if () y;",
    "if (x)",
    "if (x) else y;",
    "if (x) y; else",
    "if (x) int a;",
    "if (x) _Static_assert(1, \"a\");",
    "else y;",
    "if (a, b) c;",
    "if (int a = 1) c;",
    "switch (x) { }",
    "switch (x) { case 1: a; break; case 2: case 3: b; default: c; }",
    "switch (x) { case 1: }",
    "switch (x) { default: }",
    "switch (x) { case 1: case 2: }",
    "switch (x) { int a; case 1: a = 1; }",
    "switch (x) case 1: a;",
    "switch (x) a;",
    "switch (x) { case 1: { int q; } break; default: ; }",
    "switch (x) { case 1: int q; }",
    "switch (x) { case 1: _Static_assert(1, \"a\"); }",
    "switch (x) { case: a; }",
    "switch (x) { case 1 a; }",
    "switch (x) { case a = 1: b; }",
    "switch (x) { case 1 ... 3: b; }",
    "switch (x) { default a; }",
    "switch (x) { case 1:\n#pragma p\n a; }",
    "switch (x) { case 1: _Pragma(\"p\") a; b; }",
    "switch (x) { default:\n#pragma p\n}",
    "switch x { }",
    "switch () { }",
    "switch (x) { case 1: switch (y) { case 2: a; } default: b; }",
    "case 1: a;",
    "default: a;",
    "while (x) y;",
    "while (x) { y; }",
    "while (x) ;",
    "while (x)",
    "while () y;",
    "while x y;",
    "while (x) int a;",
    "while (x, y) z;",
    "do x; while (y);",
    "do { x; } while (y);",
    "do x; while (y)",
    "do x while (y);",
    "do x; until (y);",
    "do ; while (1);",
    "do while (1);",
    "do x; while ();",
    "do x; while y;",
    "do int a; while (1);",
    "for (;;) ;",
    "for (;;) { }",
    "for (i = 0; i < n; i++) x;",
    "for (int i = 0; i < n; i++) x;",
    "for (int i = 0, j = 1; ; ) x;",
    "for (int i; ; ) { int i; }",
    "for (i = 0, j = 1; i < j; i++, j--) x;",
    "for (;;)",
    "for (;) ;",
    "for (;;;) ;",
    "for (i = 0; i < n) x;",
    "for (int i = 0 i < n; i++) x;",
    "for (int i = 0; i < n; i++; ) x;",
    "for i = 0; ; ) x;",
    "for (struct S { int a; } s; ; ) x;",
    "for (typedef int T; ; ) x;",
    "for (_Static_assert(1, \"a\"); ; ) x;",
    "for (;;) int a;",
    "for (static int i = 0; ; ) break;",
    "goto L;",
    "goto L",
    "goto ;",
    "goto 1;",
    "goto *p;",
    "typedef int T; goto T;",
    "break;",
    "break",
    "break 1;",
    "continue;",
    "continue",
    "return;",
    "return 1;",
    "return 1, 2;",
    "return",
    "return 1",
    "return int;",
    "return (int) 1;",
    "return {1};",
    "return (struct S){1};",
    "L: x;",
    "L: ;",
    "L: }",
    "L:",
    "L: M: x;",
    "L: int a;",
    "L: { int a; }",
    "L: case 1: x;",
    "L:\n#pragma p\n x;",
    "L: _Pragma(\"p\") x; y;",
    "L: _Static_assert(1, \"m\");",
    "L : x; goto L;",
    "typedef int T; T: x;",
    "typedef int T; { int T; T: x; }",
    "x ? y : z;",
    "x ? L : z;",
    "#pragma p\n",
    "#pragma p\nx;",
    "x;\n#pragma p\n",
    "#pragma a\n#pragma b\nx;",
    "if (x)\n#pragma p\n y; else z;",
    "if (x)\n#pragma p\n#pragma q\n y;",
    "if (x) y; else\n#pragma p\n z;",
    "if (x)\n#pragma p\n",
    "while (x)\n#pragma p\n y;",
    "do\n#pragma p\n y; while (x);",
    "for (;;)\n#pragma p\n y;",
    "for (;;) _Pragma(\"p\") _Pragma(\"q\") { y; }",
    "_Pragma(\"p\");",
    "_Pragma(\"p\") x;",
    "_Pragma(\"p\" \"q\") x;",
    "_Pragma(x) x;",
    "_Pragma() x;",
    "_Pragma(\"p\" x;",
    "x = _Pragma(\"p\") 1;",
    "_Static_assert(1, \"m\");",
    "_Static_assert(1);",
    "_Static_assert(1, \"m\")",
    "_Static_assert(1, \"m\"); int a; _Static_assert(2, \"n\"); a = 1;",
    "int a; _Static_assert(sizeof(a) == 4, \"m\");",
    "_Static_assert(1, L\"m\");",
    "_Static_assert(1,);",
    "_Static_assert();",
    "{ _Static_assert(1, \"m\"); }",
    "int;",
    "struct S { int a; };",
    "struct S { int a; } s; s.a = 1;",
    "enum E { A, B }; int x = A;",
    "typedef int T; T t; t = 1;",
    "typedef int T; T * t;",
    "T * t;",
    "typedef int T; { T T; T = 1; }",
    "typedef int T; { T T; T t; }",
    "typedef int T; { int T; } T t;",
    "typedef int T; sizeof(T);",
    "typedef int T; (T) 1;",
    "int T; (T) + 1;",
    "static int a; extern int b; register int c; auto int d;",
    "int a[n]; int b[*];",
    "void g(void); g();",
    "int g(int); g(1);",
    "void g(void) { }",
    "a + b; a - b; a * b; (a)(b);",
    "sizeof x; sizeof(x); sizeof(int);",
    "\"s\"; 'c'; 1; 1.0; 0x1; 0b1; 1.0f;",
    "L\"s\"; u8\"s\"; u\"s\"; U\"s\";",
    "++x; --x; x++; x--; &x; *x; -x; +x; ~x; !x;",
    "_Alignof(int); __builtin_offsetof(struct S, a);",
    "(int){1}; ({ x; });",
    "(x);",
    ")",
    "]",
    "x; )",
    "else",
    "int a; int a;",
    "int a; { int a; }",
    "int a = a;",
    "int f(int), g(void);",
    "if (x) { y; } else if (z) { w; } else { v; }",
    "while (1) { if (x) break; else continue; }",
    "for (;;) { for (;;) { goto out; } } out: ;",
    "{ L1: L2: L3: ; }",
    "switch (x) { case 1: case 2: default: case 3: y; }",
    "switch (x) { case 1: y; z; w; case 2: { } }",
    "return f(1, 2)[3].a->b++;",
    "x = y = z;",
    "x += 1; x -= 1; x *= 1; x /= 1; x %= 1; x <<= 1; x >>= 1; x &= 1; x |= 1; x ^= 1;",
    "1 = 2;",
    "x = ;",
    "$;",
    "x = 09;",
    "x = 'a;",
    "x = \"a\nb\";",
    "/* c */ x; // d\n y;",
]


def generated_inputs():
    """Systematic combinations: every statement kind as the body of every
    compound/selection/iteration/label construct."""
    bodies = [
        ";",
        "x;",
        "{ }",
        "{ x; y; }",
        "if (a) b;",
        "if (a) b; else c;",
        "while (a) b;",
        "do b; while (a);",
        "for (;;) b;",
        "for (int i = 0; i < 2; i++) b;",
        "switch (a) { case 1: b; }",
        "return;",
        "return a;",
        "break;",
        "continue;",
        "goto L;",
        "L: x;",
        "_Pragma(\"p\") x;",
        "int d;",
        "_Static_assert(1, \"m\");",
        "}",
    ]
    wrappers = [
        "if (c) %s",
        "if (c) %s else %s",
        "while (c) %s",
        "do %s while (c);",
        "for (;;) %s",
        "switch (c) %s",
        "switch (c) { case 1: %s }",
        "switch (c) { default: %s case 2: %s }",
        "M: %s",
        "{ %s %s }",
    ]
    out = []
    for w in wrappers:
        for b in bodies:
            n = w.count("%s")
            out.append(w % ((b,) * n))
    return out


def main():
    for path in file_inputs():
        with open(path) as fh:
            text = fh.read()
        digest("FILE " + path, text, path)
        digest("FILE-STRIPPED " + path, crude_strip(text), path)

    for i, text in enumerate(TOPLEVEL):
        digest("TOP %d %r" % (i, text), text, "top%d.c" % i)

    for i, body in enumerate(STATEMENTS):
        text = "void f(void) {\n" + body + "\n}\nint after;\n"
        digest("STMT %d %r" % (i, body), text, "stmt%d.c" % i)

    for i, body in enumerate(generated_inputs()):
        text = "int g(int c)\n{ " + body + " }"
        digest("GEN %d %r" % (i, body), text)

    # default filename
    print("=" * 72)
    print("DEFAULT FILENAME")
    for text in ("int x;", "int x", "}", "int f(void) { return }", "x"):
        p = c_parser.CParser()
        try:
            ast = p.parse(text)
            buf = io.StringIO()
            ast.show(buf=buf, showcoord=True)
            print(buf.getvalue())
        except Exception as e:  # noqa: BLE001
            print("EXC", type(e).__name__, str(e))

    # state is reset between parses, also after errors
    reuse_digest(
        "typedef leak",
        [
            "typedef int T; T a;",
            "T a;",
            "int T; int f(void) { return T * 2; }",
            "typedef int T; void f(void) { {{{ T x;",
            "T * b;",
            "typedef int T; T * b;",
            "}",
            "int ok;",
        ],
    )
    reuse_digest(
        "errors then ok",
        [
            "int f(void) { if }",
            "int f(void) { return 1; }",
            "#pragma p\n",
            "_Static_assert(1, \"m\");",
            "",
            "int",
        ],
    )

    # low-level helpers of the parser, exercised directly
    print("=" * 72)
    print("HELPERS")
    p = c_parser.CParser()
    p.clex.input("int a ; x", "h.c")
    p._tokens = c_parser._TokenStream(p.clex)
    print(p._peek_type(), p._peek_type(2), p._peek_type(3), p._peek_type(0))
    print(p._peek(4), p._peek(5), p._peek(6))
    m = p._mark()
    print(m, p._advance().type, p._accept("SEMI"), p._accept("ID").value)
    print(p._starts_declaration(), p._starts_expression(), p._starts_statement())
    p._reset(m)
    print(p._mark(), p._starts_declaration(), p._starts_expression())
    print(p._starts_statement())
    try:
        p._expect("ID")
    except Exception as e:  # noqa: BLE001
        print("EXC", type(e).__name__, str(e))
    print(p._mark())
    p2 = c_parser.CParser()
    p2.clex.input("", "e.c")
    p2._tokens = c_parser._TokenStream(p2.clex)
    print(p2._peek(), p2._peek_type(), p2._accept("ID"))
    print(p2._starts_declaration(), p2._starts_expression(), p2._starts_statement())
    for fn in (p2._advance, lambda: p2._expect("SEMI")):
        try:
            fn()
        except Exception as e:  # noqa: BLE001
            print("EXC", type(e).__name__, str(e))
    p3 = c_parser.CParser()
    print(p3._scope_stack, p3._is_type_in_scope("T"))
    p3._add_typedef_name("T", None)
    p3._add_typedef_name("T", None)
    p3._add_identifier("v", None)
    p3._add_identifier("v", None)
    print(p3._scope_stack, p3._is_type_in_scope("T"), p3._is_type_in_scope("v"))
    p3._push_scope()
    p3._add_identifier("T", None)
    p3._add_typedef_name("v", None)
    print(p3._scope_stack, p3._is_type_in_scope("T"), p3._is_type_in_scope("v"))
    for fn, args in (
        (p3._add_typedef_name, ("T", "c1")),
        (p3._add_identifier, ("v", "c2")),
    ):
        try:
            fn(*args)
        except Exception as e:  # noqa: BLE001
            print("EXC", type(e).__name__, str(e))
    p3._pop_scope()
    print(p3._scope_stack, p3._is_type_in_scope("T"), p3._is_type_in_scope("v"))
    try:
        p3._pop_scope()
    except Exception as e:  # noqa: BLE001
        print("EXC", type(e).__name__, str(e))
    print(p3._scope_stack)
    print(sorted(c_parser._DECL_START))
    print(sorted(c_parser._STARTS_EXPRESSION))
    print(sorted(c_parser._STARTS_STATEMENT))


if __name__ == "__main__":
    main()
