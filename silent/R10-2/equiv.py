"""Behaviour digest for pycparser, focused on c_lexer.py.

Run as:  cd <repo root> && /venv/bin/python equiv.py > out.txt
Prints, for every input, the token stream produced by CLexer driven directly
(with all reported errors), and the result of a full parse: AST dump with
coordinates + regenerated C, or the exception type and message.
"""
import glob
import io
import os
import sys

sys.path.insert(0, os.getcwd())

from pycparser import c_generator, c_parser  # noqa: E402
from pycparser.c_lexer import CLexer  # noqa: E402

TYPEDEF_NAMES = {"mytype", "T", "size_t", "uint8_t"}


def lex_digest(text, filename="in.c"):
    out = []
    depth = [0]

    def err(msg, line, col):
        out.append(f"  ERR {msg!r} @{line}:{col}")

    def lb():
        depth[0] += 1
        out.append(f"  LBRACE-cb depth={depth[0]}")

    def rb():
        depth[0] -= 1
        out.append(f"  RBRACE-cb depth={depth[0]}")

    def lookup(name):
        return name in TYPEDEF_NAMES

    try:
        lx = CLexer(err, lb, rb, lookup)
        lx.input(text, filename)
        count = 0
        while True:
            tok = lx.token()
            if tok is None:
                break
            count += 1
            out.append(
                f"  TOK {tok.type} {tok.value!r} {tok.lineno}:{tok.column} "
                f"file={tok.filename!r} lexfile={lx.filename!r}"
            )
            if count > 200000:
                out.append("  ... too many tokens")
                break
        out.append(f"  END file={lx.filename!r} count={count}")
        # A second token() call at end of input must keep returning None.
        out.append(f"  AGAIN {lx.token()!r}")
    except Exception as e:  # noqa: BLE001
        out.append(f"  EXC {type(e).__name__}: {e}")
    return "\n".join(out)


def parse_digest(text, filename="in.c"):
    try:
        parser = c_parser.CParser()
        ast = parser.parse(text, filename)
        buf = io.StringIO()
        ast.show(buf=buf, showcoord=True)
        gen = c_generator.CGenerator().visit(ast)
        return "AST:\n" + buf.getvalue() + "C:\n" + gen
    except Exception as e:  # noqa: BLE001
        return f"EXC {type(e).__name__}: {e}"


def lexer_reuse_digest():
    """input() must fully reset the state, including a pending pragma string."""
    out = []
    errs = []
    lx = CLexer(lambda m, l, c: errs.append((m, l, c)), lambda: None, lambda: None,
                lambda n: False)
    out.append(f"fresh token: {lx.token()!r} filename={lx.filename!r}")
    lx.input("\n\n#pragma once\nint x;", "a.c")
    out.append(repr(lx.token()))  # PPPRAGMA, PPPRAGMASTR is pending
    lx.input("  y @ z", "b.c")
    while (t := lx.token()) is not None:
        out.append(repr(t))
    out.append(f"errs={errs!r} filename={lx.filename!r}")
    lx.input("k")
    out.append(repr(lx.token()))
    out.append(f"filename={lx.filename!r}")
    return "\n".join(out)


def snippets():
    s = []
    add = s.append

    # --- integer constants, all suffixes / bases
    sufs = ["", "u", "U", "l", "L", "ul", "UL", "uL", "Ul", "lu", "LU", "ll", "LL",
            "ull", "ULL", "llu", "LLU", "uLL", "Ull", "lL", "Lu", "lul", "uu", "lll"]
    for suf in sufs:
        add(f"int a = 0{suf}, b = 17{suf}, c = 0x1F{suf}, d = 0b101{suf}, e = 017{suf};")
    for c in ["0", "00", "07", "08", "09", "019", "0778", "1", "10", "123456789",
              "0x", "0X0", "0xg", "0b", "0b2", "0B11", "0b102", "0x1.8p3", "0x.8p-1",
              "0x1.p+2f", "0x1p3L", "0x1.8", "0xp3", "1e", "1e5", "1e+5f", "1.e-5L",
              ".5", "5.", ".5e3", "1.5F", "1.5l", "1.5x", ".e3", "1..2", "1.2.3",
              "1e5e5", "0e0", "00.5", "09.5", "1_000", "1$", "$1", "0x1P-0"]:
        add(f"int v = {c};")
        add(f"double f(void) {{ return {c} + 1; }}")

    # --- character constants
    for c in ["'a'", "'\\n'", "'\\''", "'\\\\'", "'\\0'", "'\\123'", "'\\1234'",
              "'\\x41'", "'\\x'", "'\\xg'", "'\\x41g'", "'\\9'", "'\\q'", "'\\%'",
              "'\\@'", "''", "'ab'", "'abcd'", "'abcde'", "'a", "'", "'\\", "'a\nb'",
              "L'a'", "u8'a'", "u'a'", "U'a'", "L'ab'", "u8'ab'", "L''", "u'\\x12'",
              "'\"'", "'?'", "'\\?'", "'\\.'", "'\\-'", "'\\^'", "' '", "'\t'",
              "'\\%a'", "'ab\\%'", "'a''b'", "'\\x41\\x42'", "'\\12\\13'"]:
        add(f"int c = {c};")
        add(f"{c}")

    # --- string literals
    for c in ['""', '"a"', '"a b\\n"', '"\\x41\\0\\123"', '"\\q"', '"a\\qb\\%c"',
              '"\\%"', '"unterminated', '"a\nb"', 'L"w"', 'u8"w"', 'u"w"', 'U"w"',
              'L"\\q"', '"a" "b"', '"a" L"b"', 'L"a" L"b"', '"\\""', '"\'"', '"//"',
              '"/* */"', '"#pragma"', '"\\', '"\\\\"', '"..\\dir\\file.h"', '"\\8\\9"',
              'u8"\\x"', 'u8', 'u8x', 'L', 'Lx', 'u', 'U', '"\\xZZ"', '"tab\there"']:
        add(f"char *s = {c};")
        add(f"{c}")

    # --- identifiers, keywords, typedef names
    kws = ["auto", "break", "case", "char", "const", "continue", "default", "do",
           "double", "else", "enum", "extern", "float", "for", "goto", "if", "inline",
           "int", "long", "register", "offsetof", "restrict", "return", "short",
           "signed", "sizeof", "static", "struct", "switch", "typedef", "union",
           "unsigned", "void", "volatile", "while", "__int128", "_Bool", "_Complex",
           "_Noreturn", "_Thread_local", "_Static_assert", "_Atomic", "_Alignof",
           "_Alignas", "_Pragma"]
    add(" ".join(kws))
    add(" ".join(k.upper() for k in kws))
    add(" ".join(k.lower() for k in kws))
    add(" ".join(k.capitalize() for k in kws))
    add(" ".join(k + "_" for k in kws) + " " + " ".join("_" + k for k in kws))
    for k in kws:
        add(f"int {k};")
    add("_bool _BOOL _Bool __Bool _ __ _1 _a $ $$ a$b _$ x1 X_1 mytype T size_t Tt")
    add("typedef int mytype; mytype x; typedef char T; T *p; { T T; }")
    add("typedef int foo; foo a; void f(void) { foo foo; foo = 1; } foo b;")
    add("typedef int foo; void f(void) { int foo; { foo = 2; } } foo c;")
    add("typedef int foo; void f(foo foo) { foo++; }")
    add("int x; x y;")

    # --- all fixed tokens and maximal munch
    ops = ["...", "<<=", ">>=", "++", "--", "->", "&&", "||", "<<", ">>", "<=", ">=",
           "==", "!=", "*=", "/=", "%=", "+=", "-=", "&=", "|=", "^=", "=", "+", "-",
           "*", "/", "%", "|", "&", "~", "^", "!", "<", ">", "?", "(", ")", "[", "]",
           "{", "}", ",", ".", ";", ":"]
    add(" ".join(ops))
    add("".join(ops))
    add("".join(reversed(ops)))
    for o in ops:
        add(f"a{o}b")
        add(f"{o}{o}{o}")
    add("a+++b; a---b; a+++++b; a>>>=b; a<<<=b; a....b; a..b; a.b; a.1; a .1; 1.a;"
        " x->*y; a&&&b; a|||b; a!==b; a===b; a-->b; a<-b; a->>b;")
    add("..."); add(".."); add("."); add(".1"); add(".1."); add("...1"); add("1...")
    add("}{ }} {{ { } }")
    add("int f(int a, ...) { return a ? a->b : a.b[1] << 2 >> 3; }")
    add("int a[3] = {1, 2, 3}; struct s { int x : 3; } v = { .x = 1 };")

    # --- illegal characters / comments / whitespace
    for c in ["@", "`", "\\", "\r", "\f", "\v", "\x00", "\x7f", "\u00e9", "\u20ac",
              "/* c */", "// c", "/*", "//", "/ /", "/ *", "*/", "/**/", "a/*b", "a//b",
              "a / / b", "/=/", "\ufeff"]:
        add(f"int a; {c} int b;")
        add(c)
        add(f"int a\n  {c}\n;")
    add(""); add(" "); add("\n"); add("\t\n \n\t"); add("\n\n\n  int\n\n x\n;\n\n")
    add("int\tx\t=\t1\t;"); add("int x;\n"); add("int x;\r\nint y;\r\n")
    add("   \n  @\n\t`\n")

    # --- #line directives
    lines = [
        '#line 66 "kwas\\df.h"', "# 9", '#line 10 "include/me.h" 1 2 3',
        '# 1 "file.h" 3', '#line "file.h"', "#line df", "#line", "#", "# ", "#\t",
        "#line 0", "#line 00", "#line 08", "#line 10u", "#line 10UL", "# 10ll",
        "#line 10 20", '#line 10 "f.h" x', '#line 10 "f.h" 1 x', '#line 10 "f.h', '#line 10 f.h',
        '#line 10 "a" "b"', '#line 10"a.h"', '#line10 "a.h"', "#line10", "#  line  12  ",
        '#  line\t13\t"t.h"\t4\t', "#linex 5", "#line_ 5", "#line-5", "#line\t5",
        '# 5 ""', '# 5 "\\q.h"', '# 5 "..\\..\\dir\\file.h"', '# 5 "a\\"b"', '# 5 """',
        "#12", "#\t12", "# 12abc", "# 1.5", "# -3", "#line 99999999999999999999",
        '# 7 "x.c" 1', '# 7 "x.c" 01', '# 7 "x.c" 1u', "#line line", "#line line 5", "# line line 5",
        "#lin 5", "#define X 1", "#include <a.h>", "# if 1", "#ifdef A", "##", "# #",
        "#line 5 # 6", '#line 5 "a.h" "b.h"', "#line 3 /* c */", "#line 0x10", "#line 010",
        "#line 4 'a'", '#line 4 L"a.h"', "#line 4  \"sp ace.h\"  ",
    ]
    for ln in lines:
        add(f"int a;\n{ln}\nint b;\n  int c;")
        add(ln)
        add(f"{ln}\n")
        add(f"int a; {ln}\nint b @;")
        add(f"  \t{ln}\n\n$x `")
    add('#line 5 "a.c"\nint a;\n#line 20 "b.c"\nint b;\n# 30\nint c;\n#line 40 "d.c" 2\nint d;')
    add('# 1 "a.c"\n# 1 "<built-in>"\n# 1 "a.c" 2\nint main(void) { return 0; }\n# 9 "z.h" 3 4\nint q')

    # --- #pragma directives
    pragmas = [
        "#pragma", "#pragma once", "# pragma omp parallel private(th_id)",
        "#\tpragma {pack: 2, smack: 3}", "#pragma  \t  ", "#pragma   x   ", "#pragma\tx\ty\t",
        "#pragmax", "#pragma_x", "#pragma1", "#pragma-x", "#pragma(x)", '#pragma "s"',
        "#pragma pragma", "#  pragma", "#  pragma  a  b", "#pragma /* c */ // d",
        "#pragma @ ` \\", "#pragma #pragma", "#pragma # 5", "#pragma 'a", "#PRAGMA x",
        "#pragma\r", "#pragma x\r",
    ]
    for pr in pragmas:
        add(pr)
        add(f"{pr}\n")
        add(f"int a;\n{pr}\nint b;\n  int c @;")
        add(f"void f(void) {{\n  {pr}\n  int x;\n{pr}\n}}\n")
        add(f"int a; {pr}\n{pr}\n\n{pr}")
        add(f"struct s {{\n{pr}\nint x;\n}};")
    add('#line 7 "p.h"\n#pragma once\nint a;\n#pragma pack(1)\n# 3 "q.h"\n#pragma\nint b;')
    add('_Pragma("once") int a; void f(void) { _Pragma("omp for") for(;;); }')
    add("#pragma a\n#pragma b\n#pragma c")
    add("# pragma\n# 5\n#\n# pragma z\n#x\n")

    # --- mixed realistic code
    add("int main(int argc, char **argv) { for (int i = 0; i < argc; ++i) "
        "{ if (argv[i][0] == '-') continue; else break; } return 0x0; }")
    add("struct { union { int a; float b; }; } s; enum e { A = 1, B, C = A | B };")
    add("void f(void) { label: goto label; switch (1) { case 1: default: break; } "
        "do { } while (0); }")
    add("int x = sizeof(int) + _Alignof(long) + offsetof(struct s, m);")
    add("_Static_assert(1, \"ok\"); _Atomic int a; _Alignas(8) char c; _Noreturn void g(void);")
    add("float f = 1.0f + 2.e1 + .5 + 0x1p1 + 1e-1L;")
    add("wchar_t *w = L\"wide\" L\"r\"; char c = L'x';")
    add("int a = b ? c : d ? e : f; a <<= 1; a >>= 2; a ^= 3; a |= 4; a &= 5; a %= 6;")
    add("int a = 1 +;"); add("int = 3;"); add("int a b;"); add("}"); add("{"); add(")")
    add("int a = (1;"); add("int a[;"); add("foo bar baz;"); add("int a = 1 2;")
    add("void f() { int x = 08; }"); add("void f() { char c = ''; }")
    add("void f() { char *s = \"\\q\"; }"); add("void f() { x = 'a; }")
    add("int a;\n\n\n   int b @ c;\n")
    add("int \u00e9 = 1;")
    return s


def main():
    out = sys.stdout
    files = sorted(
        p for root in ("tests/c_files", "examples/c_files")
        for p in glob.glob(os.path.join(root, "**", "*"), recursive=True)
        if os.path.isfile(p)
    )
    for path in files:
        with open(path, encoding="utf-8", errors="replace") as f:
            text = f.read()
        out.write(f"=== FILE {path}\n")
        out.write("--- lex\n" + lex_digest(text, path) + "\n")
        out.write("--- parse\n" + parse_digest(text, path) + "\n")

    snips = snippets()
    out.write(f"=== {len(snips)} snippets\n")
    for i, text in enumerate(snips):
        out.write(f"=== SNIPPET {i} {text!r}\n")
        out.write("--- lex\n" + lex_digest(text) + "\n")
        out.write("--- parse\n" + parse_digest(text) + "\n")
        out.write("--- parse-nofile\n")
        try:
            ast = c_parser.CParser().parse(text)
            buf = io.StringIO()
            ast.show(buf=buf, showcoord=True)
            out.write(buf.getvalue())
        except Exception as e:  # noqa: BLE001
            out.write(f"EXC {type(e).__name__}: {e}\n")

    out.write("=== lexer reuse\n" + lexer_reuse_digest() + "\n")


if __name__ == "__main__":
    main()
