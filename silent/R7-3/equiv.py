"""Behaviour digest for the expression productions of pycparser.c_parser.

Run as:  cd <repo root> && /venv/bin/python equiv.py > out.txt
Prints, for every input, either the AST dump (with coordinates) followed by
the regenerated C text, or the exception type and message. Deterministic.
"""

import glob
import io
import os
import sys

sys.path.insert(0, os.getcwd())
sys.setrecursionlimit(20000)

from pycparser import c_generator, c_parser  # noqa: E402


def digest(label, text, filename="<in>"):
    print("=" * 70)
    print("INPUT", label)
    try:
        parser = c_parser.CParser()
        ast = parser.parse(text, filename)
    except RecursionError:
        print("EXC RecursionError")
        return
    except Exception as e:  # noqa: BLE001
        print("EXC %s: %s" % (type(e).__name__, e))
        return
    buf = io.StringIO()
    ast.show(buf=buf, attrnames=True, nodenames=True, showcoord=True)
    print(buf.getvalue())
    try:
        print("GEN")
        print(c_generator.CGenerator().visit(ast))
    except RecursionError:
        print("GENEXC RecursionError")
    except Exception as e:  # noqa: BLE001
        print("GENEXC %s: %s" % (type(e).__name__, e))


# ----------------------------------------------------------------------
# 1. Files
# ----------------------------------------------------------------------
files = []
for d in ("tests/c_files", "examples/c_files"):
    for root, _dirs, names in sorted(os.walk(d)):
        for n in sorted(names):
            if n.endswith((".c", ".h")):
                files.append(os.path.join(root, n))
files.sort()
for path in files:
    with open(path, encoding="utf-8", errors="replace") as f:
        src = f.read()
    digest("FILE " + path, src, filename=path)

# ----------------------------------------------------------------------
# 2. Snippets
# ----------------------------------------------------------------------
PRELUDE = (
    "typedef int T; typedef struct S { int m; T T; struct S *next; int arr[4]; } S;\n"
    "int a, b, c, d, *p, **pp, arr[10]; S s, *ps; int f(int, ...); int g(void);\n"
)


def in_func(expr):
    return PRELUDE + "void fn(void) {\n  " + expr + ";\n}\n"


exprs = []

# binary operators: every op alone, every ordered pair (precedence and
# associativity), and a few triples
BINOPS = [
    "||", "&&", "|", "^", "&", "==", "!=", ">", ">=", "<", "<=",
    ">>", "<<", "+", "-", "*", "/", "%",
]
for op in BINOPS:
    exprs.append("a %s b" % op)
for op1 in BINOPS:
    for op2 in BINOPS:
        exprs.append("a %s b %s c" % (op1, op2))
for i, op1 in enumerate(BINOPS):
    op2 = BINOPS[(i * 7 + 3) % len(BINOPS)]
    op3 = BINOPS[(i * 5 + 11) % len(BINOPS)]
    exprs.append("a %s b %s c %s d" % (op1, op2, op3))
    exprs.append("a %s (b %s c) %s d" % (op1, op2, op3))
    exprs.append("-a %s *p %s (T)c %s d++" % (op1, op2, op3))
    exprs.append("a %s\n   b %s\n      c %s\n d" % (op3, op1, op2))

# assignment operators
ASSIGNOPS = ["=", "^=", "*=", "/=", "%=", "+=", "-=", "<<=", ">>=", "&=", "|="]
for op in ASSIGNOPS:
    exprs.append("a %s b" % op)
    exprs.append("a %s b %s c + 1" % (op, op))
    exprs.append("*p %s a ? b : c" % op)
exprs += [
    "a = b = c = d",
    "a + b = c",
    "a ? b : c = d",
    "(a) = 1",
    "arr[1] = s.m = ps->m",
]

# conditional / comma
exprs += [
    "a ? b : c",
    "a ? b : c ? d : a",
    "a ? b ? c : d : a",
    "a ? b, c : d",
    "a ? b = c : d",
    "a || b ? c && d : a | b",
    "a, b",
    "a, b, c",
    "a, b, c, d",
    "(a, b), c",
    "a = 1, b = 2",
    "f(a, b, c)",
    "f((a, b), c)",
    "f(a = 1, b ? c : d)",
    "g()",
    "g()()",
    "f(a)(b)(c, d)",
    "f(g(), f(1, 2), 3)",
]

# casts, compound literals, sizeof, alignof
exprs += [
    "(int)a",
    "(T)a",
    "(T)(a)",
    "(a)(b)",
    "(a)+b",
    "(T)+b",
    "(T)-b * c",
    "(T)*p",
    "(T)&a",
    "(int)(char)(long)a",
    "(int *)p",
    "(int (*)(int))p",
    "(struct S *)p",
    "(const volatile T * const)p",
    "(unsigned long long)a + b",
    "(int){1}",
    "(int){1,}",
    "(T){1}",
    "(S){1, 2}",
    "(S){.m = 1, .T = 2}",
    "(S){.m = 1}.m",
    "(int[]){1, 2, 3}[1]",
    "(int[3]){1, 2, 3}[a]++",
    "&(S){1, 2}",
    "((S){1, 2}).m",
    "(T)(S){1}.m",
    "(int)(int){1}",
    "((int){1})",
    "(S *){0}->next->m",
    "(void (*)(void)){0}()",
    "sizeof a",
    "sizeof(a)",
    "sizeof(int)",
    "sizeof(T)",
    "sizeof(T) * 2",
    "sizeof (T){1}",
    "sizeof (S){1, 2}.m",
    "sizeof (int[]){1,2}[0] + 1",
    "sizeof sizeof a",
    "sizeof -a",
    "sizeof *p",
    "sizeof (a) + b",
    "sizeof (a)[1]",
    "sizeof(struct S)",
    "sizeof(int (*)[3])",
    "sizeof a++",
    "sizeof ++a",
    "sizeof (T)a",
    "sizeof(T)a",
    "_Alignof(int)",
    "_Alignof(T) + 1",
    "_Alignof(struct S *)",
    "_Alignof(a)",
    "_Alignof a",
    "_Alignof(int",
]

# unary
exprs += [
    "++a", "--a", "a++", "a--", "++a++", "- -a", "-(-a)", "+ +a", "!a", "~a",
    "!~-+a", "*p", "**pp", "&a", "&*p", "*&a", "&arr[1]", "*p++", "(*p)++",
    "++*p", "-a++", "a+++b", "a---b", "a + ++b", "a - --b", "a- -b", "a&&b", "a& &b",
    "a * *p", "!a == b", "~a & b", "++(a)", "- sizeof a", "&s.m", "&ps->m", "*ps->next",
]

# postfix
exprs += [
    "arr[0]", "arr[a][b]", "arr[a, b]", "arr[a = 1]", "p[1][2][3]", "s.m", "ps->m",
    "s.T", "ps->T", "ps->next->next->m", "s.next->arr[2]", "s.arr[1]++", "f(1).m",
    "f(1)->m", "f(1)[2]", "arr[1](2)", "s.m++ + ++s.m", "a++--", "a++ ++",
    "(a)[1]", "(f)(1)", "(*p)(1, 2)", "(&s)->m", "(s).m", "s . m", "ps -> m",
    "s.1", "s.", "ps->", "ps->(m)", "s.int", "arr[", "arr[]", "arr[1", "f(", "f(1,", "f(1,)", "f(,1)",
]

# primary: identifiers, constants, strings, parens, offsetof
exprs += [
    "a", "(a)", "((a))", "(((a)))", "(a + b) * c", "a * (b + c)", "(a, b)",
    "0", "1", "123", "0x1F", "0X1f", "017", "0b101", "0B11",
    "1u", "1U", "1l", "1L", "1ul", "1UL", "1lu", "1LU", "1ll", "1LL", "1ull", "1ULL", "1llu", "1LLU",
    "0x10u", "0x10L", "0xFFull", "017u", "017l", "0b1u", "0b1ll", "0xeL", "0xfuL", "0xllu" ,
    "1uu", "1lll", "1lul",
    "1.0", "1.", ".5", "1e10", "1E-3", "1.5e+3", "1.0f", "1.0F", "1.0l", "1.0L", "1e3f", "1e3L", ".5f",
    "0x1p3", "0x1.8p-1", "0x.8p1f", "0x1p3L", "0x1P3F", "1.0d", "1f",
    "'a'", "'\\n'", "'\\0'", "'\\x41'", "'\\''", "L'a'", "u'a'", "U'a'", "u8'a'", "'ab'", "'abcd'", "'ul'", "'lL'",
    "''", "'a", "'\\q'",
    '"abc"', '""', '"a" "b"', '"a" "b" "c"', '"a\\n" "\\"b"', '"a"\n  "b"',
    'L"abc"', 'L"a" L"b"', 'u8"a" u8"b"', 'u"a" u"b" u"c"', 'U"a" U"b"', 'L"a" u"b"', 'u8"a" L"b" U"c"',
    '"a" L"b"', 'L"a" "b"', '"abc', '"a" 1', '"a"[0]', '*"abc"', 'sizeof "abc"', 'sizeof L"ab" L"cd"',
    'f("x", L"y", \'z\')', '"a" "b"[1]', 'L"" L""', '"\\x41" "\\101"',
    "offsetof(S, m)", "offsetof(struct S, m)", "offsetof(S, next.m)", "offsetof(S, arr[1])",
    "offsetof(S, arr[a + 1].T)", "offsetof(S, T)", "offsetof(S, T.T)", "offsetof(T, m) + 1",
    "offsetof(S, m)[0]", "offsetof(S)", "offsetof(S, )", "offsetof(S, 1)", "offsetof(a, m)",
    "offsetof(S, m", "offsetof S, m)", "offsetof(S, arr[)", "offsetof(S, m.)", "offsetof(S, arr[1)",
    "T", "T + 1", "a + T", "int", "a int", "(T)", "(int)", "()", "(", ")", "a +", "+", "a b", "a 1", "1 a",
    "a ? b", "a ? : c", "a ? b :", "a ? b c", "a = ", "= a", "a + * ", "a ,", ", a", "a , , b",
    "a || ", "&& a", "a == == b", "a < > b", "a ! b", "a ~ b", "a.b.c", "a->b", "1.m", "1[a]", "1(2)",
    "({ a; })", "({ int z = 1; z + 1; })", "a + ({ b; })", "({ a; }) + 1", "({ a; }", "f(({ a; }), b)",
    "a = ({ b; })", "({})", "(({ a; }))", "a ? ({ b; }) : c",
    "sizeof", "sizeof(", "sizeof(int", "sizeof(int) a", "sizeof()", "(int", "(int) ", "(int){", "(int){1", "(int){1;}",
    "(T){}", "(int){}",
    "a @ b", "a $ b", "`a", "a # b",
    "__func__", "_a1 + a_2", "a\n+\nb", "a /* c */ + /* d */ b", "a // x\n + b",
]

# deep nesting
for n in (1, 5, 40):
    exprs.append("(" * n + "a" + ")" * n)
    exprs.append("(T)" * n + "a")
    exprs.append("-" + " -" * n + "a")
    exprs.append("a" + "[1]" * n)
    exprs.append("a" + " + a" * n)
    exprs.append("a" + " = a" * n)
    exprs.append("a ? " * n + "b" + " : c" * n)
    exprs.append("a" + " ? b : a" * n)
    exprs.append("sizeof " * n + "a")
    exprs.append("f(" * n + "a" + ")" * n)
    exprs.append("(int){" * n + "1" + "}" * n)
    exprs.append("a" + " * a + a" * n)
    exprs.append("a" + " + a * a" * n)
    exprs.append("a" + " || a && a | a ^ a & a == a < a << a + a * a" * n)

for i, e in enumerate(exprs):
    digest("EXPR %d: %r" % (i, e), in_func(e))

# expressions in non-statement contexts (constant_expression, initializers,
# expression_opt, etc.)
contexts = [
    "int x = 1 + 2 * 3;",
    "int x = (1, 2);",
    "int x = 1, y = 2;",
    "int x = a = 1;",
    "int x[1 + 2];",
    "int x[sizeof(int) * 2];",
    "int x[(int)3.0];",
    "int x[1, 2];",
    "int x[a ? 1 : 2];",
    "int x[a = 1];",
    "enum E { A = 1 << 2, B = A | 1, C = sizeof(int), D = (int)'a', E_ = A ? B : C };",
    "enum E { A = 1, 2 };",
    "enum E { A = b = 2 };",
    "struct B { int x : 1 + 2; unsigned y : sizeof(int); int : 0; };",
    "struct B { int x : a ? 1 : 2; };",
    "struct B { int x : a = 1; };",
    "_Static_assert(1 + 1 == 2, \"ok\");",
    "_Static_assert(sizeof(int) >= 2);",
    "_Static_assert(1, \"a\" \"b\");",
    "_Static_assert(a = 1, \"x\");",
    "int x = {1};",
    "int x[] = {1, 2 + 3, (4, 5), [2] = 6};",
    "int x[] = {[1 + 1] = 2, [a ? 1 : 2] = 3};",
    "int x[] = {[1, 2] = 3};",
    "S s2 = {.m = 1 + 1, .arr = {1, 2}, .next = &s2};",
    "S s2 = {.arr[1] = 2, .next = (S *)0};",
    "char *str = \"a\" \"b\";",
    "int *q = (int[]){1, 2};",
    "int *q = &(int){1};",
    "int y = sizeof (int){1};",
    "_Alignas(8 * 2) int z;",
    "_Alignas(sizeof(int)) int z;",
    "_Alignas(int) int z;",
    "int fn2(int n, int v[n + 1]);",
    "int fn2(int n, int v[static n * 2]);",
    "int fn2(int n, int v[const *]);",
    "int fn2(int v[*]);",
    "void fn2(void) { if (a == b) c = 1; else c = 2; }",
    "void fn2(void) { while (a < b, c) a++; }",
    "void fn2(void) { do a--; while (a); }",
    "void fn2(void) { for (a = 0; a < 10; a++, b--) ; }",
    "void fn2(void) { for (;;) ; }",
    "void fn2(void) { for (int i = 0, j = 1; i < j; ) ; }",
    "void fn2(void) { for (a; ; b) ; }",
    "void fn2(void) { switch (a + 1) { case 1 + 1: break; case 'a': case (int)2: default: ; } }",
    "void fn2(void) { switch (a) { case 1, 2: break; } }",
    "void fn2(void) { switch (a) { case a = 2: break; } }",
    "void fn2(void) { return; }",
    "int fn2(void) { return a + b, c; }",
    "int fn2(void) { return (a); }",
    "int fn2(void) { return (T)a; }",
    "int fn2(void) { return (T){a}; }",
    "int fn2(void) { return }",
    "void fn2(void) { ; }",
    "void fn2(void) { a; b; }",
    "void fn2(void) { a }",
    "void fn2(void) { T x; x = 1; }",
    "void fn2(void) { T * x; a * b; }",
    "void fn2(void) { T (x); (a)(b); }",
    "void fn2(void) { int T; T = 1; T * a; }",
    "void fn2(void) { L: a = 1; goto L; }",
    "void fn2(void) { if (a) }",
    "void fn2(void) { if () a; }",
    "void fn2(void) { while () ; }",
    "void fn2(void) { if (a b) c; }",
    "void fn2(void) { f(a; }",
    "void fn2(void) { a = (b; }",
    "void fn2(void) { a = b); }",
    "void fn2(void) { a = 1u; b = 2uu; }",
    "void fn2(void) { a = 1lll; }",
    "int x = ;",
    "int x = 1 +;",
    "int x[;",
    "int x = (int;",
    "int x = \"a\" L;",
    "int x = 1",
    "int x = (1",
    "int x = a ? 1",
    "int x = a ? 1 :",
    "int x = sizeof",
    "int x = sizeof(",
    "int x = -",
    "int x = f(",
    "int x = f(1,",
    "int x = arr[",
    "int x = s.",
    "int x = (T)",
    "int x = (T){",
    "int x = (T){1",
    "int x = offsetof(",
    "int x = offsetof(S,",
    "int x = offsetof(S, m",
    "int x = _Alignof",
    "int x = _Alignof(",
    "int x = \"a\"",
    "int x = L\"a\"",
    "int x = L\"a\" L\"b\"",
    "int x = (",
    "int x = ({",
    "int x = ({ 1; }",
    "#line 10 \"foo.c\"\nint x = 1 +\n#line 20 \"bar.c\"\n 2 * f(3);",
    "# 5 \"inc.h\" 1\nint x = (T)\n\n a ? \"s\"\n \"t\" : L\"w\"\n  L\"v\";",
    "int x = 1 +\n#pragma foo\n 2;",
    "void fn2(void) { a = 1 +\n#pragma foo\n 2; }",
    "void fn2(void) {\n#pragma omp parallel\n a = 1; }",
    "void fn2(void) { _Pragma(\"x\") a = 1; }",
]
for i, c in enumerate(contexts):
    digest("CTX %d: %r" % (i, c), PRELUDE + c + "\n")

# bare inputs without the prelude (T unknown: ID vs TYPEID differences)
bare = [
    "void f(void) { (x)(y); }",
    "void f(void) { (x)-y; }",
    "void f(void) { (x){1}; }",
    "void f(void) { sizeof(x); }",
    "void f(void) { x * y; }",
    "typedef int x; void f(void) { (x)(y); (x)-y; (x){1}; sizeof(x); x * y; }",
    "typedef int x; void f(int x) { (x)(y); (x)-y; sizeof(x); x * y; }",
    "typedef int x; void f(void) { int y = (x)1, x = 2, z = (x)+1; }",
    "typedef int x; void f(void) { { int x; x = 1; } (x)1; }",
    "typedef int x; void f(void) { for (int x = 0; x < 1; x++) (x); (x)1; }",
    "typedef struct { int x; } x; void f(x *p) { p->x = ((x *)p)->x; offsetof(x, x); }",
    "int v = 1 + 2",
    "int v = 1 + 2;;",
    "int v = sizeof(int[2]){1,2};",
    "",
    ";",
    "1;",
    "a = 1;",
    "(a);",
]
for i, c in enumerate(bare):
    digest("BARE %d: %r" % (i, c), c)

print("DONE files=%d exprs=%d ctx=%d bare=%d" % (len(files), len(exprs), len(contexts), len(bare)))
