"""Behaviour digest for the expression productions of pycparser.c_parser.

Run from the repository root:

    /venv/bin/python equiv.py > out.txt

For every input it prints either the AST dump (with coordinates) followed by
the regenerated C text, or the exception type and message.  The output is
fully deterministic, so two trees behave the same on these inputs iff the
outputs are byte-identical.
"""

import io
import itertools
import json
import os
import re
import sys

sys.path.insert(0, os.getcwd())

from pycparser import c_ast, c_generator, c_parser  # noqa: E402
from pycparser.c_lexer import Token  # noqa: E402


class FakeLexer:
    """A lexer (public `lexer=` hook of CParser) replaying a fixed token list.

    The "source text" is a JSON list of [type, value] pairs.  It lets the
    digest drive the expression productions with token type/value
    combinations the real lexer never produces (odd suffixes, empty values,
    tokens without a file name ...), so that helper code is compared on its
    whole input domain and not only on what CLexer happens to emit.
    """

    def __init__(self, error_func, on_lbrace_func, on_rbrace_func, type_lookup_func):
        self.on_lbrace_func = on_lbrace_func
        self.on_rbrace_func = on_rbrace_func
        self.filename = ""
        self._toks = []
        self._pos = 0

    def input(self, text, filename=""):
        self.filename = filename
        self._toks = json.loads(text)
        self._pos = 0

    def token(self):
        if self._pos >= len(self._toks):
            return None
        typ, value = self._toks[self._pos]
        self._pos += 1
        if typ == "LBRACE":
            self.on_lbrace_func()
        elif typ == "RBRACE":
            self.on_rbrace_func()
        # Odd positions carry no per-token file name: exercises both branches
        # of CParser._tok_coord.
        fname = None if self._pos % 2 else "tok.c"
        return Token(typ, value, 1 + self._pos // 8, 1 + 3 * self._pos, fname)


def make_parser(entry=None, fake=False):
    """Return a parser; with `entry`, parse() starts at that production."""
    kwargs = {"lexer": FakeLexer} if fake else {}
    if entry is None:
        return c_parser.CParser(**kwargs)

    class Direct(c_parser.CParser):
        def _parse_translation_unit_or_empty(self):
            node = getattr(self, entry)()
            # expression_opt may legitimately produce nothing
            return c_ast.FileAST([] if node is None else [node])

    return Direct(**kwargs)


def digest(text, filename, entry=None, fake=False):
    parser = make_parser(entry, fake)
    try:
        ast = parser.parse(text, filename)
    except Exception as e:  # noqa: BLE001 - the type and message are the digest
        return f"EXC {type(e).__module__}.{type(e).__name__}: {e}\n"
    buf = io.StringIO()
    try:
        ast.show(buf=buf, attrnames=True, nodenames=True, showcoord=True)
    except Exception as e:  # noqa: BLE001
        buf.write(f"SHOWEXC {type(e).__module__}.{type(e).__name__}: {e}\n")
    out = "AST\n" + buf.getvalue()
    try:
        out += "GEN\n" + c_generator.CGenerator().visit(ast) + "\n"
    except Exception as e:  # noqa: BLE001
        out += f"GENEXC {type(e).__module__}.{type(e).__name__}: {e}\n"
    return out


def report(label, text, filename, entry=None, fake=False):
    print("=" * 72)
    print(f"INPUT {label}")
    print("-" * 72)
    sys.stdout.write(digest(text, filename, entry, fake))


# ----------------------------------------------------------------------
# 1. Files shipped with the repository (parsed without cpp)
# ----------------------------------------------------------------------
def strip_cpp(text):
    """Poor man's preprocessing so that the files needing cpp also reach the
    expression productions: drop comments and directive lines (the line
    structure is kept)."""
    text = re.sub(
        r"/\*.*?\*/", lambda m: "\n" * m.group(0).count("\n"), text, flags=re.S
    )
    text = re.sub(r"//[^\n]*", "", text)
    return re.sub(r"(?m)^[ \t]*#(?:[^\n\\]|\\.|\\\n)*", "", text)


def file_inputs():
    for root in ("tests/c_files", "examples/c_files"):
        for dirpath, dirnames, filenames in os.walk(root):
            dirnames.sort()
            for name in sorted(filenames):
                if not name.endswith((".c", ".h")):
                    continue
                path = os.path.join(dirpath, name).replace(os.sep, "/")
                with open(path, encoding="latin-1") as f:
                    text = f.read()
                yield path, text
                stripped = strip_cpp(text)
                if stripped != text:
                    yield path + " (stripped)", stripped
                header = path[:-2] + ".h"
                if path.endswith(".c") and os.path.exists(header):
                    with open(header, encoding="latin-1") as f:
                        yield path + " (stripped, with header)", (
                            strip_cpp(f.read()) + stripped
                        )


# ----------------------------------------------------------------------
# 2. Expression snippets
# ----------------------------------------------------------------------
PRELUDE = (
    "typedef int T; typedef struct S { int a; int b[4]; struct S *n; T T; } S;\n"
    "int a, b, c, d, *p, arr[10]; S s, *ps; int f(int, ...); int g(void);\n"
)

# Expressions that are placed in statement context: `void t(void) { E; }`
EXPRS = [
    # primary
    "a", "1", "(a)", "((a))", "(((1)))", "(a, b)", "(a, b, c)",
    # integer constants with suffixes
    "0", "07", "0x1F", "0X1f", "0b101", "0B11", "1u", "1U", "1l", "1L", "1ul",
    "1UL", "1lu", "1LU", "1ll", "1LL", "1ull", "1ULL", "1llu", "1LLU", "1uLL",
    "1lU", "0xFFu", "0xFULL", "0777L", "0b1u", "0xABCDEFl", "0xFUL", "0x1LL",
    "0xull", "1uu", "1lll", "1lul", "1uul", "1ulu", "1llul", "1ullu", "1LLL",
    "123456789012345678901234567890", "0x", "08", "1a", "0b2",
    # float constants
    "1.0", "1.", ".5", "1e10", "1E-3", "1.5e+3", "1.0f", "1.0F", "1.0l", "1.0L",
    "1e3f", "1e3L", "0x1p3", "0x1.8p-1", "0x.8p1f", "0x1p3L", "0X1P3F", "1.0ff",
    "1.0fl", "1.e", "0x1.8",
    # char constants
    "'a'", "'\\n'", "'\\0'", "'\\x41'", "'\\''", "'\"'", "L'a'", "u8'a'", "u'a'",
    "U'a'", "'ab'", "'abcd'", "'ul'", "'LL'", "'uU'", "'lll'", "''", "'\\q'",
    "'a", "L'ab'", "'\\777'",
    # string literals
    '"abc"', '""', '"a" "b"', '"a" "b" "c"', '"a"\n  "b"', '"\\n\\t\\\\"',
    '"\\x41\\101"', 'L"abc"', 'L"a" L"b"', 'u8"a"', 'u8"a" u8"b"', 'u"a" u"b"',
    'U"a" U"b" U"c"', 'L"a" u8"b"', 'u"a" U"b" L"c"', '"a" L"b"', 'L"a" "b"',
    '"a" "b" L"c"', 'L"a" L"b" "c"', '"\\q"', '"\\q\\w"', '"abc', 'L"\\q"',
    '"a" 1', '"a" b', '"a"[0]', '"a" "b"[1]', 'L"a"[0]', 'sizeof "abc"',
    'sizeof("a" "b")', 'f(1, "a" "b", L"c" L"d")', '*"abc"', '"%d" "\\"" "x"',
    '"" ""', 'L"" L""', 'u8"\\"" u8"\\""',
    # postfix
    "arr[0]", "arr[a+1]", "arr[a, b]", "arr[0][1]", "g()", "f(a)", "f(a, b)",
    "f(a, (b, c))", "f(a = 1, b)", "f(a)(b)", "f(a)[b]", "s.a", "ps->a",
    "s.n->n->a", "s.b[1]", "ps->b[a]", "s.T", "ps->T", "a++", "a--", "a++ ++",
    "a++--", "arr[0]++", "s.a--", "f(a)++", "ps->n->b[1]++", "s.1", "s.", "ps->",
    "s.(a)", "ps->*a", "s.int", "arr[]", "arr[0", "f(", "f(a,", "f(a,)", "f(,a)",
    "f(a b)", "g(void)", "a.b.c.d", "a->b->c", "a[b][c][d]", "a(b)(c)(d)",
    # compound literals
    "(int){1}", "(int){1,}", "(int[]){1, 2, 3}", "(S){1, {2}}", "(S){.a = 1}",
    "(S){.a = 1, .b[0] = 2}", "(int[2]){[0] = 1, [1] = 2}", "(S){1}.a",
    "(int[]){1, 2}[0]", "(int[]){1, 2}[0]++", "&(S){1}", "(S *){0}->a",
    "(T){1}", "(const int){1}", "(struct S){1}", "(int){}", "(int){1",
    "(int){1}(2)", "sizeof (int){1}", "sizeof (int[]){1, 2}[0]",
    "sizeof (S){1}.a", "(int)(int){1}", "(int){(int){1}}", "((int){1})",
    "(int){1} + (int){2}", "a = (S){1}.a", "f((int){1}, (T){2})",
    # unary
    "++a", "--a", "++ ++a", "++--a", "&a", "*p", "+a", "-a", "~a", "!a", "- -a",
    "!!a", "~-a", "&*p", "*&a", "**&p", "-(a)", "-(int)a", "++(a)", "++*p",
    "*p++", "(*p)++", "++a++", "-a++", "!a--", "&arr[1]", "&s.a", "&ps->b[1]",
    "*f(a)", "-1", "+1.0", "~0u", "!'a'", "&", "*", "++", "-", "!;",
    # sizeof / _Alignof
    "sizeof a", "sizeof(a)", "sizeof (a)", "sizeof(int)", "sizeof(T)",
    "sizeof(S)", "sizeof(struct S)", "sizeof(int *)", "sizeof(int[4])",
    "sizeof(int (*)(void))", "sizeof sizeof a", "sizeof sizeof(int)",
    "sizeof -a", "sizeof *p", "sizeof &a", "sizeof a++", "sizeof ++a",
    "sizeof(a) + 1", "sizeof(int) + 1", "sizeof (int) * 2", "sizeof (a) * 2",
    "sizeof(a)[0]", "sizeof (a)->b", "sizeof(T) - 1", "sizeof(int) - 1",
    "sizeof a + b", "sizeof (a + b)", "sizeof(a, b)", "sizeof arr[0]",
    "sizeof s.a", "sizeof(const int)", "sizeof(unsigned long long)",
    "sizeof(int", "sizeof(int))", "sizeof", "sizeof()", "sizeof int",
    "sizeof(int) a", "sizeof (T) a", "sizeof (int) -1", "sizeof(S){1}",
    "_Alignof(int)", "_Alignof(T)", "_Alignof(S *)", "_Alignof(struct S)",
    "_Alignof(int) + 1", "_Alignof(a)", "_Alignof int", "_Alignof(int",
    "_Alignof", "_Alignof()", "_Alignof(int){1}", "sizeof _Alignof(int)",
    "_Alignof(int[sizeof(int)])",
    # casts
    "(int)a", "(T)a", "(S *)p", "(int)(a)", "(int)(long)a", "(int)-a", "(int)*p",
    "(int)&a", "(int)++a", "(int)a++", "(int)sizeof a", "(int)sizeof(int)",
    "(void)0", "(void)f(a)", "(int *)p + 1", "(int)a * b", "(T)(a) + b",
    "(T)*p", "(a)*p", "(T)-a", "(a)-b", "(T)&a", "(a)&b", "(T)(a)", "(a)(b)",
    "(unsigned char)a", "(const volatile int * const)p", "(int (*)(int))p",
    "(int)", "(int);", "(T)", "(int a", "(int)(", "(struct S)s", "(int[2])a",
    "(int)a = 1", "(T)a ? b : c", "(_Atomic(int))a", "(_Atomic int)a",
    "(enum E)a", "(union U *)p", "(T T)a",
    # binary operators (each operator once)
    "a * b", "a / b", "a % b", "a + b", "a - b", "a << b", "a >> b", "a < b",
    "a <= b", "a > b", "a >= b", "a == b", "a != b", "a & b", "a ^ b", "a | b",
    "a && b", "a || b",
    # precedence and associativity
    "a + b * c", "a * b + c", "a + b + c", "a - b - c", "a * b / c % d",
    "a + b * c - d", "a << b + c", "a + b << c", "a < b == c", "a == b < c",
    "a & b == c", "a == b & c", "a ^ b & c", "a | b ^ c", "a && b | c",
    "a || b && c", "a && b || c", "a || b || c", "a && b && c",
    "a | b | c", "a ^ b ^ c", "a & b & c", "a == b != c", "a < b > c <= d >= a",
    "a << b >> c", "a * (b + c)", "(a + b) * c", "a + (b * c)",
    "a || b && c | d ^ a & b == c < d << a + b * c",
    "a * b + c << d < a == b & c ^ d | a && b || c",
    "a + b * c + d * a + b", "a * b * c + d + a * b", "a - -b", "a - --b",
    "a+++b", "a---b", "a + +b", "a & &b", "a * *p", "a && &b", "-a * -b",
    "!a && !b", "a * (int)b", "(int)a * (int)b", "a + sizeof b", "a + sizeof(int) * b",
    "a < b ? c : d", "a +", "a + ;", "a * / b", "a + b c", "a ==", "a || ",
    "a < > b", "a b", "1 2", "a 'c'",
    # conditional
    "a ? b : c", "a ? b : c ? d : a", "a ? b ? c : d : a", "(a ? b : c) ? d : a",
    "a ? b, c : d", "a ? (b, c) : d", "a || b ? c && d : a | b", "a ? b : c = d",
    "a ? b = c : d", "a = b ? c : d", "a ? : b", "a ? b", "a ? b :", "a ? b c",
    "a ? b : c, d", "a ? f(a) : g()", "a ? s.a : ps->a", "a ? (int)b : (T)c",
    "a ? (int){1} : 2", "a ? \"x\" : \"y\" \"z\"",
    # assignment
    "a = b", "a = b = c", "a *= b", "a /= b", "a %= b", "a += b", "a -= b",
    "a <<= b", "a >>= b", "a &= b", "a ^= b", "a |= b", "a = b += c -= d",
    "*p = a", "arr[0] = a", "s.a = b", "ps->a = b", "a = b, c = d",
    "a = (b, c)", "a + b = c", "-a = b", "(a) = b", "(int)a = b", "1 = a",
    "a = ", "= a", "a = = b", "a =+ b", "a += = b", "a ? b : c = d = a",
    "a = b ? c : d = a", "sizeof a = b", "a++ = b", "++a = b", "f() = a",
    "a = {1}", "a = (int){1}",
    # comma
    "a, b", "a, b, c", "a, b, c, d", "(a, b), c", "a, (b, c)", "a = 1, b = 2, c",
    "a,", ", a", "a,, b", "f(a), g()", "a ? b : c, d ? a : b",
    # statement expressions (GNU)
    "({ a; })", "({ int x = 1; x; })", "a = ({ b; })", "f(({ a; }), b)",
    "({ a; }) + 1", "1 + ({ a; })", "({ })", "({ a; }", "({ a; }))",
    "a ? ({ b; }) : c", "(({ a; }))", "({ ({ a; }); })", "-({ a; })",
    "({ a; }), b", "a, ({ b; })",
    # offsetof
    "offsetof(S, a)", "offsetof(struct S, a)", "offsetof(S, b[1])",
    "offsetof(S, n.a)", "offsetof(S, b[a + 1].n.T)", "offsetof(S, T)",
    "offsetof(S, a.T.a[0][1])", "offsetof(S, a) + 1", "sizeof offsetof(S, a)",
    "offsetof(S)", "offsetof(S, )", "offsetof(S, 1)", "offsetof(a, b)",
    "offsetof(S, a", "offsetof S, a)", "offsetof(S, a->b)", "offsetof(S, a.)",
    "offsetof(S, a[)", "offsetof(S, a[1)", "offsetof(int, a)", "offsetof",
    "offsetof(S, a)(1)", "offsetof(S, a)[1]", "offsetof(S, int)",
    # identifiers / typedef names used as expressions
    "T", "T + 1", "a + T", "T * a", "(T)", "T(a)", "S", "s.T + ps->T",
    # invalid starts
    "", ")", "]", "}", "{", "int", "return", "if", ".a", "->a", "? a : b", ": a",
    "/ a", "% a", "== a", "#", "@", "$a", "`", "a @ b", "a # b", "\\",
    # misc combos
    "*p++ = *p++", "a = b ? c, d : a", "f(a ? b : c, d = a)", "arr[a ? b : c]",
    "arr[a = b]", "(*f)(a)", "(&f)(a, b)", "(*ps).a", "(&s)->a", "p[0][a](b)->c.d++",
    "!f(a)[1]", "-s.a", "~ps->a", "sizeof f(a)", "sizeof s.b / sizeof s.b[0]",
    "sizeof(arr) / sizeof(arr[0])", "sizeof(arr) / sizeof(*arr)",
    "(int)sizeof(T) * (T)a", "a = sizeof(int) * b", "a < b && c > d",
    "(a < b) > c", "a < (b > c)", "a = b == c", "(a = b) == c",
    "a ? b : (c = d)", "(a ? b : c) = d", "- - - a", "! ~ - + a", "& * & * p",
    "++ -- ++ a", "a ++ -- ++", "(T)(T)(T)a", "(T)(a)(b)", "(int)(a)(b)",
    "((T)a)(b)", "(T)a(b)", "(T)a[b]", "(T)a.b", "(T)a->b", "(T)a++",
    "sizeof(T)a", "sizeof(T)(a)", "sizeof(a)(b)", "sizeof (T)[1]",
    "sizeof (T){1}[0]", "sizeof(T) * sizeof(T)", "sizeof(T) ? a : b",
    "a ? sizeof(T) : sizeof b", "a[sizeof(T)]", "f(sizeof(T), sizeof a)",
]

# Whole translation units (not wrapped): expressions in other contexts.
UNITS = [
    "int x = 1 + 2 * 3;",
    "int x = (1, 2);",
    "int x = 1, y = 2;",
    "int x = a ? b : c;",
    "int x = a = b;",
    "int x = sizeof(int);",
    "int x = sizeof x;",
    "int x[sizeof(int) * 2];",
    "int x[1 + 2][3 * 4];",
    "int x[a ? 1 : 2];",
    "int x[1, 2];",
    "int x[a = 1];",
    "int x[] = {1, 2 + 3, (4, 5)};",
    "int x[] = {[0] = 1, [1 + 1] = 2, [a ? 1 : 2] = 3};",
    "int x[] = {[1, 2] = 3};",
    "int x[] = {[a = 1] = 3};",
    "struct P { int a : 3; int b : 1 + 2; int c : sizeof(int); int : 0; };",
    "struct P { int a : 1, 2; };",
    "struct P { int a : b = 1; };",
    "enum E { A = 1, B = A + 1, C = sizeof(int), D = (int)1.5, F = A ? 1 : 2 };",
    "enum E { A = 1, 2 };",
    "enum E { A = B = 1 };",
    "enum E { A = };",
    "_Static_assert(1 + 1 == 2, \"ok\");",
    "_Static_assert(sizeof(int) >= 2, \"a\" \"b\");",
    "_Static_assert(1, 2);",
    "_Static_assert(1 ? 2 : 3);",
    "_Static_assert(a = 1, \"x\");",
    "_Alignas(8) int x; _Alignas(int) int y; _Alignas(1 << 3) int z;",
    "_Alignas(1, 2) int x;",
    "char *s = \"abc\" \"def\";",
    "char *s = \"abc\" L\"def\";",
    "int *w = L\"abc\" L\"def\";",
    "int *w = L\"abc\"  \n\t L\"def\" u\"g\";",
    "char s[] = \"abc\", t[] = \"d\" \"e\";",
    "char c = 'a', d = '\\n', e = 'ab';",
    "unsigned long long v = 18446744073709551615ULL;",
    "unsigned v = 1uu;",
    "long v = 1lll;",
    "float f = 1.0f; double d = 1.0; long double l = 1.0L;",
    "float f = 0x1p-2f; double d = 0x1.fp3; long double l = 0xap1l;",
    "void f(void) { if (a == b) c = d; else c = a ? b : d; }",
    "void f(void) { while (a < b, c) a++; }",
    "void f(void) { do a--; while (a > 0 && b); }",
    "void f(void) { for (a = 0, b = 1; a < b; a++, b--) c += a * b; }",
    "void f(void) { for (int i = 0, j = i + 1; i < j; ++i) ; }",
    "void f(void) { for (;;) ; }",
    "void f(void) { for (a;;) ; for (;a;) ; for (;;a) ; }",
    "void f(void) { switch (a + b) { case 1 + 2: break; case 'a': case sizeof(int): default: ; } }",
    "void f(void) { switch (a) { case 1, 2: ; } }",
    "void f(void) { switch (a) { case a = 1: ; } }",
    "int f(void) { return a + b * c; }",
    "int f(void) { return (a, b); }",
    "int f(void) { return a, b; }",
    "int f(void) { return; }",
    "int f(void) { return (int){1}; }",
    "int f(void) { return sizeof(int){1}; }",
    "int f(void) { return ({ int x = a; x + 1; }); }",
    "void f(void) { ; }",
    "void f(void) { a; b; (c); }",
    "void f(void) { a b; }",
    "void f(void) { a }",
    "void f(void) { (a; }",
    "void f(void) { a); }",
    "void f(void) { a = ; }",
    "void f(void) { x: a = 1; goto x; }",
    "typedef int T; void f(void) { T x = (T)1; T *y = (T *)&x; x = sizeof(T); x = sizeof x; }",
    "typedef int T; void f(void) { int T = 1; T = T * 2; T++; (T); sizeof(T); }",
    "typedef int T; void f(int T) { T = (T) + 1; }",
    "typedef int T; void f(void) { T (x); T *y; x * y; }",
    "typedef int T; int x = sizeof(T), y = sizeof(T *), z = sizeof(T[2]);",
    "typedef int T; int x = (T){1}, y = (T)2, z = (T)(3);",
    "typedef struct { int a; } S; S s = (S){.a = 1}; int x = ((S){2}).a; int y = (S){3}.a;",
    "typedef struct { int a; } S; int x = offsetof(S, a), y = offsetof(S, a) * 2;",
    "int x = offsetof(struct Q, m[1].n);",
    "int f(int n) { int v[n + 1]; int w[*]; return sizeof v; }",
    "void f(int a[static 1 + 2], int b[const a ? 1 : 2], int c[restrict static 3]);",
    "int (*fp)(int) = &f; int r = (*fp)(1) + fp(2);",
    "int x = ((((((((((1))))))))));",
    "int x = - - - - - - 1;",
    "int x = 1 + + + + 1;",
    "int x = !!!!!!a;",
    "int x = a[b[c[d[0]]]];",
    "int x = f(g(h(1, 2), 3), 4);",
    "int x = a.b->c.d->e;",
    "int x = a ? b ? c ? 1 : 2 : 3 : 4;",
    "int x = a ? 1 : b ? 2 : c ? 3 : 4;",
    "int x = 1 +\n  2 *\n    3;",
    "int x =\n\n  (a\n   +\n   b)\n ;",
    "#line 10 \"foo.c\"\nint x = a +\nb;",
    "int x = a +\n#line 20 \"bar.h\"\nb * c;",
    "int x = \"a\"\n#line 5 \"baz.c\"\n\"b\";",
    "#pragma once\nint x = 1 + 2;",
    "void f(void) { a = 1;\n#pragma omp parallel\n b = a + 2; }",
    "void f(void) { _Pragma(\"x\") a = b + c; }",
    "int x = 1",
    "int x = ;",
    "int x = 1 +;",
    "int x = (1;",
    "int x = 1);",
    "int x = {1, 2;",
    "int x = 1 ? 2;",
    "int x = sizeof;",
    "int x = sizeof(;",
    "int x = (int);",
    "int x = (int){;",
    "int x = a.;",
    "int x = a->1;",
    "int x = f(;",
    "int x = a[;",
    "int x = 'a;",
    "int x = \"abc;",
    "int x = 1.2.3;",
    "int x = 0x1g;",
    "int x = 1e;",
    "int x = 09;",
    "int x = '\\8';",
    "int x = \"\\8\";",
    "int x = \"\\8\" \"\\9\";",
    "int x = L\"\\8\";",
    "int x = 1 @ 2;",
    "",
    ";",
    "int x = 1;;",
]


def generated_exprs():
    """Systematically generated binary / unary / postfix combinations."""
    binops = ["*", "/", "%", "+", "-", "<<", ">>", "<", "<=", ">", ">=", "==",
              "!=", "&", "^", "|", "&&", "||"]
    # every ordered pair of binary operators: checks the precedence climbing
    for op1, op2 in itertools.product(binops, repeat=2):
        yield f"a {op1} b {op2} c"
    # three-operator chains over a representative subset
    subset = ["*", "+", "<<", "<", "==", "&", "&&", "||"]
    for op1, op2, op3 in itertools.product(subset, repeat=3):
        yield f"a {op1} b {op2} c {op3} d"
    unops = ["++", "--", "&", "*", "+", "-", "~", "!", "sizeof ", "(int)", "(T)"]
    for u1, u2 in itertools.product(unops, repeat=2):
        yield f"{u1}{u2} a"
    operands = ["a", "1", "1.5f", "'c'", '"s"', 'L"w"', "(a)", "(int)a",
                "(T){1}", "sizeof(T)", "f(a)", "arr[1]", "s.a", "ps->a", "a++",
                "-a", "offsetof(S, a)", "({ a; })", "_Alignof(T)"]
    suffixes = ["", "[0]", "(1)", ".a", "->a", "++", "--"]
    for o, sfx in itertools.product(operands, suffixes):
        yield f"{o}{sfx}"
    assign = ["=", "*=", "/=", "%=", "+=", "-=", "<<=", ">>=", "&=", "^=", "|="]
    for op, rhs in itertools.product(assign, ["b", "b + c", "b ? c : d", "c = d", "(b, c)"]):
        yield f"a {op} {rhs}"
    int_bodies = ["0", "7", "10", "017", "0x1f", "0b11"]
    int_sfx = ["", "u", "U", "l", "L", "ul", "lu", "UL", "ll", "LL", "ull", "llu",
               "uLL", "LLu", "uu", "lll", "ulu", "lul", "lL", "Ll", "ulll", "uull"]
    for body, sfx in itertools.product(int_bodies, int_sfx):
        yield f"{body}{sfx}"
    float_bodies = ["1.0", "1e5", ".5e-2", "0x1p4", "0x.ap-1"]
    for body, sfx in itertools.product(float_bodies, ["", "f", "F", "l", "L", "lf", "d"]):
        yield f"{body}{sfx}"
    strs = ['"a"', '"b\\n"', 'L"c"', 'u8"d"', 'u"e"', 'U"f"', '""', 'L""']
    for s1, s2 in itertools.product(strs, repeat=2):
        yield f"{s1} {s2}"
        yield f"{s1}\n\t{s2}"
    for s1, s2, s3 in itertools.product(strs[:4], repeat=3):
        yield f"{s1} {s2} {s3}"


# ----------------------------------------------------------------------
# 3. Token-level inputs (FakeLexer) and direct production entry points
# ----------------------------------------------------------------------
ENTRIES = [
    "_parse_expression", "_parse_assignment_expression",
    "_parse_conditional_expression", "_parse_binary_expression",
    "_parse_cast_expression", "_parse_unary_expression",
    "_parse_postfix_expression", "_parse_primary_expression",
    "_parse_constant_expression", "_parse_argument_expression_list",
    "_parse_offsetof_member_designator", "_parse_identifier",
    "_parse_identifier_or_typeid", "_parse_constant",
    "_parse_unified_string_literal", "_parse_unified_wstring_literal",
    "_parse_expression_opt",
]

DIRECT_TEXTS = [
    "", "a", "T", "1", "1u", "1.5f", "'c'", "'ab'", '"s"', '"s" "t"', 'L"w"',
    'L"w" u"x"', '"s" L"w"', 'L"w" "s"', "a, b", "a = b", "a ? b : c", "a + b * c",
    "(int)a", "-a", "sizeof a", "sizeof(int)", "a[1]", "a.b", "a.b[1].c",
    "a->b", "f(a, b)", "(a)", "(int){1}", "offsetof(S, a)", "({ a; })", "+", ")",
    ";", "int", "a b", "1 2", "a.", "a[", "a.1", "_Alignof(int)", "++a", "a++",
]

_INT_TYPES = ["INT_CONST_DEC", "INT_CONST_OCT", "INT_CONST_HEX", "INT_CONST_BIN"]
_INT_VALUES = [
    "1", "", "u", "l", "ul", "lu", "uu", "ll", "lll", "ull", "llu", "lul", "ulu",
    "uul", "1u", "1U", "1l", "1L", "1uu", "1uU", "1Uu", "1ll", "1lL", "1lll",
    "1LLL", "1ull", "1llu", "1lul", "1ulu", "1uul", "1luu", "12uu", "0xull",
    "0xulL", "1uuu", "1ulll", "1uull", "1llluu", "123", "0x1F", "'ul'", "lu1",
]
_FLOAT_VALUES = ["1.0", "1.0f", "1.0F", "1.0l", "1.0L", "f", "l", "x", "", "1.0fl",
                 "1.0lf", "0x1p3", "0x1p3F", "0x1p3L"]
_CHAR_TYPES = ["CHAR_CONST", "WCHAR_CONST", "U8CHAR_CONST", "U16CHAR_CONST",
               "U32CHAR_CONST", "INT_CONST_CHAR"]
_WSTR_TYPES = ["WSTRING_LITERAL", "U8STRING_LITERAL", "U16STRING_LITERAL",
               "U32STRING_LITERAL"]
_WSTR_VALUES = ['L"a"', 'L"a"  ', 'u8"b"', 'L""', '"c"', "nope", "", 'x"y"z"', ' "q" ',
                '"']


def token_inputs():
    """Yield (label, entry, tokens) triples for the FakeLexer."""
    for typ, val in itertools.product(_INT_TYPES, _INT_VALUES):
        yield f"{typ} {val!r}", "_parse_constant", [[typ, val]]
    for val in _INT_VALUES:
        yield f"INT_CONST_CHAR {val!r}", "_parse_constant", [["INT_CONST_CHAR", val]]
    for typ, val in itertools.product(["FLOAT_CONST", "HEX_FLOAT_CONST"], _FLOAT_VALUES):
        yield f"{typ} {val!r}", "_parse_constant", [[typ, val]]
    for typ, val in itertools.product(_CHAR_TYPES, ["'a'", "", "L'a'", "'ul'"]):
        yield f"{typ} {val!r}", "_parse_constant", [[typ, val]]
    for typ in ["ID", "TYPEID", "STRING_LITERAL", "WSTRING_LITERAL", "PLUS", "SEMI",
                "INT_CONST", "FLOAT", "CHAR_CONST_X", ""]:
        yield f"constant from {typ}", "_parse_constant", [[typ, "v"]]
        yield f"primary from {typ}", "_parse_primary_expression", [[typ, "v"]]
        yield f"string from {typ}", "_parse_unified_string_literal", [[typ, '"v"']]
        yield f"wstring from {typ}", "_parse_unified_wstring_literal", [[typ, 'L"v"']]
        yield f"identifier from {typ}", "_parse_identifier", [[typ, "v"]]
        yield f"id_or_typeid from {typ}", "_parse_identifier_or_typeid", [[typ, "v"]]
    # string concatenation on arbitrary values
    str_values = ['"a"', '"b"', '""', '"', "", "ab", 'x"y"']
    for v1, v2 in itertools.product(str_values, repeat=2):
        toks = [["STRING_LITERAL", v1], ["STRING_LITERAL", v2]]
        yield f"str {v1!r} {v2!r}", "_parse_primary_expression", toks
    for v1, v2, v3 in itertools.product(str_values[:4], repeat=3):
        toks = [["STRING_LITERAL", v] for v in (v1, v2, v3)]
        yield f"str {v1!r} {v2!r} {v3!r}", "_parse_unified_string_literal", toks
    for v1, v2 in itertools.product(_WSTR_VALUES, repeat=2):
        for t1, t2 in (("WSTRING_LITERAL", "WSTRING_LITERAL"),
                       ("U8STRING_LITERAL", "U32STRING_LITERAL")):
            yield f"wstr {t1} {v1!r} {t2} {v2!r}", "_parse_primary_expression", [[t1, v1], [t2, v2]]
    for t1, t2, t3 in itertools.product(_WSTR_TYPES + ["STRING_LITERAL"], repeat=3):
        toks = [[t1, 'L"a" '], [t2, 'u"b"\t'], [t3, 'U"c"']]
        yield f"wstr types {t1} {t2} {t3}", "_parse_primary_expression", toks
    # whole expressions on hand-made token lists
    ID = lambda v: ["ID", v]  # noqa: E731
    seqs = [
        [ID("a"), ["PLUS", "+"], ID("b"), ["TIMES", "*"], ID("c")],
        [ID("a"), ["PLUS", "plus"], ID("b"), ["TIMES", "times"], ID("c")],
        [ID("a"), ["EQUALS", "="], ID("b"), ["PLUSEQUAL", "+="], ID("c")],
        [ID("a"), ["EQUALS", "assign"], ID("b")],
        [ID("a"), ["CONDOP", "?"], ID("b"), ["COLON", ":"], ID("c")],
        [ID("a"), ["CONDOP", "?"], ID("b")],
        [ID("a"), ["COMMA", ","], ID("b"), ["COMMA", ","], ID("c")],
        [["MINUS", "neg"], ID("a")], [["PLUSPLUS", "inc"], ID("a")],
        [ID("a"), ["PLUSPLUS", "inc"]], [ID("a"), ["MINUSMINUS", "dec"]],
        [["SIZEOF", "sizeof"], ID("a")], [["SIZEOF", "SZ"], ["LPAREN", "("], ["INT", "int"], ["RPAREN", ")"]],
        [["SIZEOF", "SZ"], ["LPAREN", "("], ["INT", "int"], ["RPAREN", ")"],
         ["LBRACE", "{"], ["INT_CONST_DEC", "1"], ["RBRACE", "}"]],
        [["_ALIGNOF", "AL"], ["LPAREN", "("], ["INT", "int"], ["RPAREN", ")"]],
        [["_ALIGNOF", "AL"], ID("a")],
        [["LPAREN", "("], ["INT", "int"], ["RPAREN", ")"], ID("a")],
        [["LPAREN", "("], ["INT", "int"], ["RPAREN", ")"], ["LBRACE", "{"],
         ["INT_CONST_DEC", "1"], ["COMMA", ","], ["RBRACE", "}"], ["LBRACKET", "["],
         ["INT_CONST_DEC", "0"], ["RBRACKET", "]"]],
        [["LPAREN", "("], ["LBRACE", "{"], ID("a"), ["SEMI", ";"], ["RBRACE", "}"], ["RPAREN", ")"]],
        [["LPAREN", "("], ID("a"), ["RPAREN", ")"]], [["LPAREN", "("], ID("a")],
        [ID("a"), ["PERIOD", "dot"], ID("b")], [ID("a"), ["ARROW", "arrow"], ["TYPEID", "T"]],
        [ID("a"), ["PERIOD", "."], ["INT_CONST_DEC", "1"]], [ID("a"), ["PERIOD", "."]],
        [ID("a"), ["LPAREN", "("], ["RPAREN", ")"]],
        [ID("a"), ["LPAREN", "("], ID("b"), ["COMMA", ","], ID("c"), ["RPAREN", ")"]],
        [ID("a"), ["LBRACKET", "["], ID("b"), ["RBRACKET", "]"]],
        [ID("a"), ["LBRACKET", "["], ID("b")],
        [["OFFSETOF", "OFF"], ["LPAREN", "("], ["INT", "int"], ["COMMA", ","], ID("m"),
         ["PERIOD", "."], ["TYPEID", "T"], ["LBRACKET", "["], ID("i"), ["RBRACKET", "]"],
         ["RPAREN", ")"]],
        [["OFFSETOF", "OFF"], ["LPAREN", "("], ["INT", "int"], ["COMMA", ","], ["INT", "int"], ["RPAREN", ")"]],
        [["AND", "&"], ID("a")], [["TIMES", "*"], ID("a")], [["NOT", "~"], ID("a")],
        [["LNOT", "!"], ID("a")], [["PLUS", "+"], ID("a")], [["LNOT", "!"]],
        [ID("a"), ["LOR", "||"], ID("b"), ["LAND", "&&"], ID("c"), ["OR", "|"], ID("d"),
         ["XOR", "^"], ID("e"), ["AND", "&"], ID("f"), ["EQ", "=="], ID("g"), ["LT", "<"],
         ID("h"), ["LSHIFT", "<<"], ID("i"), ["PLUS", "+"], ID("j"), ["MOD", "%"], ID("k")],
        [ID("a"), ["MOD", "%"], ID("b"), ["MINUS", "-"], ID("c"), ["RSHIFT", ">>"], ID("d"),
         ["GE", ">="], ID("e"), ["NE", "!="], ID("f"), ["AND", "&"], ID("g"), ["XOR", "^"],
         ID("h"), ["OR", "|"], ID("i"), ["LAND", "&&"], ID("j"), ["LOR", "||"], ID("k")],
        [ID("a"), ["GT", ">"], ID("b"), ["LE", "<="], ID("c"), ["DIVIDE", "/"], ID("d")],
        [ID("a"), ["PLUS", "+"]], [ID("a"), ID("b")], [],
    ]
    for i, toks in enumerate(seqs):
        for entry in ("_parse_expression", "_parse_expression_opt"):
            yield f"seq[{i}] {entry}", entry, toks
        # the same sequence inside a full translation unit
        unit = [["INT", "int"], ID("x"), ["EQUALS", "="]] + toks + [["SEMI", ";"]]
        yield f"seq[{i}] unit", None, unit


def main():
    n = 0
    for path, text in file_inputs():
        report(f"file {path}", text, path)
        n += 1
    for i, expr in enumerate(EXPRS):
        src = PRELUDE + "void t(void) {\n  " + expr + ";\n}\n"
        report(f"expr[{i}] {expr!r}", src, "expr.c")
        n += 1
    # The same expressions as initializers / conditions (no typedef prelude
    # names in scope except T and S): a different calling context for the
    # expression productions.
    for i, expr in enumerate(EXPRS):
        src = PRELUDE + "int t(void) { if (" + expr + ") return " + expr + "; }\n"
        report(f"cond[{i}] {expr!r}", src, "cond.c")
        n += 1
    for i, unit in enumerate(UNITS):
        report(f"unit[{i}] {unit!r}", unit, "unit.c")
        n += 1
    for i, expr in enumerate(generated_exprs()):
        src = PRELUDE + "void t(void) {\n  x = " + expr + ";\n}\n"
        report(f"gen[{i}] {expr!r}", src, "gen.c")
        n += 1
    # end-of-input in the middle of an expression (no trailing tokens)
    for i, expr in enumerate(EXPRS[:400:7]):
        src = "int x = " + expr
        report(f"eof[{i}] {expr!r}", src, "")
        n += 1
    # every expression-level production as an entry point, real lexer
    for entry in ENTRIES:
        for i, text in enumerate(DIRECT_TEXTS):
            report(f"direct {entry}[{i}] {text!r}", text, "direct.c", entry=entry)
            n += 1
    # hand-made token lists through the FakeLexer
    for label, entry, toks in token_inputs():
        report(f"tokens {label}", json.dumps(toks), "fake.c", entry=entry, fake=True)
        n += 1
    print("=" * 72)
    print(f"TOTAL {n}")


if __name__ == "__main__":
    main()
