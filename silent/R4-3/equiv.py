"""Behaviour digest for pycparser's lexer (and the parser/generator on top).

Run as:  cd <repo root> && /venv/bin/python equiv.py > out.txt

For every input prints
  * the raw token stream produced by CLexer (with non-raising error callback,
    so error recovery paths are exercised) together with the final lexer state;
  * the result of CParser().parse(): AST dump with coordinates + generated C,
    or the exception type and message.
Everything is deterministic; no timing, ids or hashes of objects are printed.
"""
import glob
import io
import os
import sys

sys.path.insert(0, os.getcwd())

from pycparser import c_generator, c_lexer, c_parser  # noqa: E402

TYPEDEF_NAMES = {"mytype", "T", "size_t", "Node"}


# ------------------------------------------------------------------ helpers
def lex_digest(text, filename="<lex>"):
    out = []
    events = []

    def on_error(msg, line, column):
        events.append(f"ERR {line}:{column} {msg!r}")

    def on_lbrace():
        events.append("LBRACE-CB")

    def on_rbrace():
        events.append("RBRACE-CB")

    def type_lookup(name):
        events.append(f"LOOKUP {name!r}")
        return name in TYPEDEF_NAMES

    lexer = c_lexer.CLexer(on_error, on_lbrace, on_rbrace, type_lookup)
    lexer.input(text, filename)
    count = 0
    try:
        while True:
            tok = lexer.token()
            for ev in events:
                out.append("    " + ev)
            del events[:]
            if tok is None:
                break
            count += 1
            out.append(
                f"    TOK {tok.type} {tok.value!r} {tok.lineno}:{tok.column} "
                f"file={tok.filename!r}"
            )
            if count > 5000:
                out.append("    ... too many tokens")
                break
    except Exception as e:  # pragma: no cover - should not happen
        out.append(f"    LEXER RAISED {type(e).__name__}: {e}")
    out.append(f"    END filename={lexer.filename!r} again={lexer.token()!r}")
    return "\n".join(out)


def parse_digest(text, filename="<src>"):
    try:
        parser = c_parser.CParser()
        ast = parser.parse(text, filename)
    except Exception as e:
        return f"  EXC {type(e).__name__}: {e}"
    buf = io.StringIO()
    ast.show(buf=buf, showcoord=True)
    try:
        gen = c_generator.CGenerator().visit(ast)
    except Exception as e:
        gen = f"GEN-EXC {type(e).__name__}: {e}"
    return "  AST:\n" + buf.getvalue() + "  C:\n" + gen


def section(title):
    print("=" * 78)
    print(title)
    print("=" * 78)


def run(name, text, filename="<src>", do_lex=True):
    print(f"--- {name}")
    print(f"  INPUT {text!r}")
    if do_lex:
        print("  LEX:")
        print(lex_digest(text, filename))
    print(parse_digest(text, filename))


# ------------------------------------------------------------------ tables
def dump_tables():
    section("module tables")
    g = vars(c_lexer)
    if "_regex_master" in g:
        print("regex_master.pattern =", repr(g["_regex_master"].pattern))
        print("regex_master.flags =", g["_regex_master"].flags)
        print("regex_master.groupindex =", sorted(g["_regex_master"].groupindex.items(), key=lambda kv: kv[1]))
    if "_keywords" in g:
        print("keywords =", type(g["_keywords"]).__name__, list(g["_keywords"]))
    if "_keyword_map" in g:
        print("keyword_map =", list(g["_keyword_map"].items()))
    if "_regex_rules" in g:
        for r in g["_regex_rules"]:
            print("rule", r.tok_type, repr(r.regex_pattern), r.action.name, repr(r.error_message))
    if "_regex_actions" in g:
        for k, (a, m) in g["_regex_actions"].items():
            print("action", k, a.name, repr(m))
    if "_fixed_tokens" in g:
        print("fixed =", [(t.tok_type, t.literal) for t in g["_fixed_tokens"]])
    if "_fixed_tokens_by_first" in g:
        for k, b in g["_fixed_tokens_by_first"].items():
            print("bucket", repr(k), [(t.tok_type, t.literal) for t in b])
    for nm in ("_line_pattern", "_pragma_pattern"):
        if nm in g:
            print(nm, repr(g[nm].pattern), g[nm].flags)
    for nm in sorted(g):
        if nm.startswith("_") and not nm.startswith("__") and isinstance(g[nm], str):
            # raw regex source strings
            if nm in (
                "_identifier", "_hex_prefix", "_hex_digits", "_bin_prefix", "_bin_digits",
                "_integer_suffix_opt", "_decimal_constant", "_octal_constant",
                "_hex_constant", "_bin_constant", "_bad_octal_constant",
                "_simple_escape", "_decimal_escape", "_hex_escape", "_bad_escape",
                "_escape_sequence", "_escape_sequence_start_in_string", "_cconst_char",
                "_char_const", "_wchar_const", "_u8char_const", "_u16char_const",
                "_u32char_const", "_multicharacter_constant", "_unmatched_quote",
                "_bad_char_const", "_string_char", "_string_literal", "_wstring_literal",
                "_u8string_literal", "_u16string_literal", "_u32string_literal",
                "_bad_string_literal", "_exponent_part", "_fractional_constant",
                "_floating_constant", "_binary_exponent_part", "_hex_fractional_constant",
                "_hex_floating_constant", "_unsupported_c_style_comment",
                "_unsupported_cxx_style_comment",
            ):
                print("str", nm, repr(g[nm]))


# ------------------------------------------------------------------ snippets
def snippets():
    S = []

    def add(name, text):
        S.append((name, text))

    # --- every fixed token in some context ---------------------------------
    binops = ["+", "-", "*", "/", "%", "|", "&", "^", "<<", ">>", "||", "&&",
              "<", ">", "<=", ">=", "==", "!="]
    for op in binops:
        add(f"binop {op}", f"int x = a {op} b;")
        add(f"binop-nospace {op}", f"int x = a{op}b;")
    assignops = ["=", "*=", "/=", "%=", "+=", "-=", "<<=", ">>=", "&=", "|=", "^="]
    for op in assignops:
        add(f"assign {op}", f"void f(void) {{ a {op} 3; }}")
        add(f"assign-nospace {op}", f"void f(void){{a{op}3;}}")
    for op in ["++", "--", "-", "+", "~", "!", "*", "&"]:
        add(f"unary {op}", f"void f(void) {{ x = {op}y; }}")
    add("postfix", "void f(void) { x++; y--; p->q = r.s; a[1] = b ? c : d; }")
    add("ellipsis", "int printf(const char *fmt, ...);")
    add("ellipsis-bad", "int f(int a, ..);")
    add("four dots", "int f(int a, ....);")
    add("plusplusplus", "void f(void) { a = b+++c; }")
    add("minusminusminus", "void f(void) { a = b---c; }")
    add("shift-chains", "int x = a<<=b>>=c<<d>>e<f>g;")
    add("arrow-gt", "void f(void) { a = p->x->y - > 3; }")
    add("ops-soup", "&&& ||| === !== <<<= >>>= ->- ..")
    add("punct", "int a[3] = {1, 2, 3}; struct s { int b : 3; };")
    add("nested braces", "void f(void) { { { } } { } }")
    add("unbalanced rbrace", "int a; }")
    add("unbalanced lbrace", "void f(void) { {")
    add("period-number", "double d = .5 + 5. + a.b;")
    add("period alone", "x = . ;")

    # --- keywords -------------------------------------------------------------
    kw_src = getattr(c_lexer, "_keyword_map", {})
    for kw in list(kw_src):
        add(f"kw-lex {kw}", f"{kw} {kw}x x{kw} {kw.upper()} {kw.lower()} {kw.capitalize()}")
    add("kw decls", "static const volatile unsigned long long int a; extern short b; register char c; signed d; auto float e; double f;")
    add("kw control", "void f(void) { if (a) b(); else c(); while (1) { break; continue; } do x(); while (0); for (;;) ; switch (a) { case 1: default: goto L; } L: return; }")
    add("kw types", "typedef struct S { union { int a; } u; enum E { A, B } e; } S; inline void g(void); int * restrict p;")
    add("kw c11", "_Bool b; _Complex double c; _Noreturn void h(void); _Thread_local int t; _Static_assert(1, \"x\"); _Atomic int at; int al = _Alignof(int); _Alignas(8) int aa; __int128 big;")
    add("kw sizeof offsetof", "int s = sizeof(int) + sizeof x + offsetof(struct s, m);")
    add("kw _Pragma", "_Pragma(\"omp parallel\") int x;")
    add("kw wrong case", "_bool b; _BOOL c; Int d; INT e; _static_assert(1, \"\");")
    add("typedef use", "typedef int mytype; mytype x; mytype *f(mytype a);")
    add("typedef scope", "typedef int T; void f(void) { T a; { int T; T = 3; } T b; }")
    add("dollar id", "int $a, b$c, _$;")
    add("id shapes", "int _, __, _a1, A9_, a_b_c, L, u, U, u8, Lx, u8x;")

    # --- integer constants ---------------------------------------------------
    suffixes = ["", "u", "U", "l", "L", "ul", "uL", "Ul", "UL", "lu", "lU", "Lu", "LU",
                "ll", "LL", "ull", "uLL", "Ull", "ULL", "llu", "llU", "LLu", "LLU",
                "lL", "Ll", "uu", "lul", "ulll", "z"]
    for s in suffixes:
        add(f"int suffix {s!r}", f"int a = 0{s}, b = 17{s}, c = 017{s}, d = 0x1F{s}, e = 0b101{s};")
    add("ints misc", "int a = 0, b = 00, c = 007, d = 1234567890, e = 0xdeadBEEF, f = 0XAB, g = 0B11, h = 0b0;")
    add("bad octal", "int a = 08;")
    add("bad octal 2", "int a = 0779;")
    add("bad octal 3", "int a = 09u;")
    add("bad hex", "int a = 0x;")
    add("bad hex 2", "int a = 0xg;")
    add("bad bin", "int a = 0b2;")
    add("bad bin 2", "int a = 0b;")
    add("number-id", "int a = 123abc;")
    add("octal then 8 later", "int a = 0128;")

    # --- float constants -----------------------------------------------------
    floats = ["1.0", "1.", ".1", "1e5", "1E5", "1e+5", "1e-5", "1.5e10", ".5e-3", "5.e3",
              "1.0f", "1.0F", "1.0l", "1.0L", "1e5f", "1.e", "1e", "1e+", "1.0ff", "1.0fl",
              "0.0", "00.5", "09.5", "08e1", "1..2", "1.2.3",
              "0x1p3", "0x1.8p3", "0x.8p3", "0x1.p3", "0X1P-3", "0x1p+3f", "0x1.8p3L",
              "0x1.8", "0x.p3", "0x1p", "0x1.8p", "0xAp1", "0xa.bP2l"]
    for f in floats:
        add(f"float {f}", f"double d = {f};")
        add(f"float-lex {f}", f"{f} x{f} {f}x -{f}")

    # --- char constants ------------------------------------------------------
    chars = ["'a'", "'\\n'", "'\\0'", "'\\x41'", "'\\x4'", "'\\xg'", "'\\x'", "'\\123'", "'\\1234'",
             "'\\9'", "'\\''", "'\"'", "'\\\"'", "'\\\\'", "'\\?'", "'\\a'", "'\\z'", "'\\.'",
             "'ab'", "'abcd'", "'abcde'", "'a\\nb'", "''", "'", "'a", "'a\n'", "'\\'", "'\\",
             "'\\%'", "'\\%a'", "'\\(b'", "' '", "'\t'", "'#'", "'\\8'", "'\\x414243'",
             "'\\xAg'", "'\\12a'"]
    for c in chars:
        add(f"char {c!r}", f"int c = {c};")
        for p in ("L", "u8", "u", "U"):
            add(f"char {p}{c!r}", f"int c = {p}{c};")
    add("char prefixes spaced", "int c = L 'a' + u8 'b';")
    add("char unknown prefix", "int c = R'a' + u9'b' + UL'c';")
    add("unmatched quote eof", "int c = 'ab")
    add("unmatched quote then more", "int c = 'ab\nint d;")
    add("bad char then more", "int c = 'abcdef'; int d;")

    # --- string literals -----------------------------------------------------
    strs = ['""', '"a"', '"hello world"', '"\\n\\t\\0"', '"\\x41\\x42"', '"\\xZZ"', '"\\123\\9"',
            '"a\\"b"', '"\\\\"', '"it\'s"', '"\\\'"', '"\\%"', '"a\\%b\\(c"', '"\\%\\%"',
            '"abc', '"abc\n"', '"\\', '"a\\\nb"', '"#"', '"/* x */"', '"// x"', '"..\\..\\dir\\file.h"',
            '"\\."', '"\\~\\!\\=\\&\\^\\-"', '"tab\there"', '"\\8\\9"', '"\\("']
    for s in strs:
        add(f"str {s!r}", f"char *s = {s};")
        for p in ("L", "u8", "u", "U"):
            add(f"str {p}{s!r}", f"char *s = {p}{s};")
    add("str concat", 'char *s = "a" "b" L"c" u8"d" u"e" U"f";')
    add("str adjacent nospace", 'char *s = "a""b"L"c";')
    add("str unknown prefix", 'char *s = R"a" u9"b" LL"c";')

    # --- comments / illegal characters ---------------------------------------
    add("c comment", "int a; /* comment */ int b;")
    add("cxx comment", "int a; // comment\nint b;")
    add("comment start only", "/*")
    add("slash alone", "int a = b / c /d;")
    add("div-equal vs comment", "void f(void){ a /= b; a /=/ b; a //= b;\n }")
    for ch in ["@", "`", "\\", "\x00", "\x7f", "\r", "\f", "\v", "\u00e9", "\u4e2d", "\U0001f600"]:
        add(f"illegal {ch!r}", f"int a; {ch} int b;")
        add(f"illegal-only {ch!r}", ch)
        add(f"illegal-in-id {ch!r}", f"int a{ch}b;")
    add("crlf", "int a;\r\nint b;\r\n")
    add("empty", "")
    add("only ws", "  \t \n\n \t\n")
    add("only newline", "\n")
    add("tabs columns", "\tint\ta\t=\t1\t;\n\t\tint b;")
    add("many lines", "int a;\n\n\nint b;\n   int c;\n\n")

    # --- #line directives -----------------------------------------------------
    lines = [
        '#line 66 "kwas\\df.h"', "# 9", '#line 10 "include/me.h" 1 2 3', '# 1 "file.h" 3',
        '#line "file.h"', "#line df", "#line", "# ", "#  \t", "#line  ", "#  line  5",
        "#\tline\t7\t\"t.h\"\t1", "#line 0", "#line 00", "#line 08", "#line 10u", '#line 10u "f.h"',
        "#line 10UL", "#line 5 6", '#line 5 "a" "b"', '#line 5 "a" x', '#line 5 "a" 1 x',
        '#line 5 "a', '#line 5 "a\\%b"', '#line 5 x', "#line 5x", "#line 5\"a.h\"",
        '#line 5 "a.h"3', '#line 5 "" ', '#line 5 "\\"q\\""', '#line 5 """"', "#line -5",
        "#line 5 ", "#line 99999999999999999999", "#linex 5", "#line5", "#line_5", "#line\n5",
        "#lineline 5", "#line line 5", "# line", "# 5line", "#5", "# 5 \"x.c\" 1 2 3 4",
        "#line 0x10", "#line 1.5", "#line 5 'a'", '#line 5 L"w.h"', "#line 5 \"a b\\c.h\"",
        "#  12  \"sp.h\"  ", "#line 3 \"..\\\\..\\\\dir\\\\file.h\"", "#line 3 \"..\\..\\dir\\file.h\"",
    ]
    for l in lines:
        add(f"ppline {l!r}", f"int a;\n{l}\nint b;\n")
        add(f"ppline-eof {l!r}", f"int a;\n{l}")
        add(f"ppline-start {l!r}", f"{l}\nint b; int c;\n  int d;")
        add(f"ppline-indented {l!r}", f"int a;\n  {l}\n  int b;")
    add("ppline midline", 'int a; #line 5 "m.h"\nint b;')
    add("ppline two", '#line 5 "a.h"\nint a;\n#line 100\nint b;\n# 7 "c.h" 2\nint c;')
    add("ppline in func", 'void f(void) {\n# 20 "in.c"\n  int x = 1;\n# 30\n  x++;\n}')
    add("ppline error coords", '# 20 "in.c"\nint a = @;')
    add("ppline then parse error", '# 20 "in.c"\nint a = ;')
    add("ppline then eof error", '# 20 "in.c"\nint a = ')

    # --- #pragma ------------------------------------------------------------
    pragmas = [
        "#pragma", "#pragma once", "# pragma omp parallel private(th_id)",
        "#\tpragma {pack: 2, smack: 3}", "#pragma   ", "#pragma \t once \t ", "#pragmax",
        "#pragma(x)", "#pragma\"s\"", "#pragma_x", "#pragma1", "#pragma-x", "#  pragma", "#pragma\tx\ty",
        "#pragma pack(push, 1)", "#pragma GCC diagnostic ignored \"-Wfoo\"", "#pragma /* c */",
        "#pragma // c", "#pragma @ ` \\ $", "#pragma 'unterminated", "#pragma #pragma x",
        "#PRAGMA once", "#Pragma once", "#pragma\r", "#pragma a\r",
    ]
    for p in pragmas:
        add(f"pragma {p!r}", f"int a;\n{p}\nint b;\n")
        add(f"pragma-eof {p!r}", f"int a;\n{p}")
        add(f"pragma-start {p!r}", f"{p}\nint b;")
        add(f"pragma-in-func {p!r}", f"void f(void) {{\n  int x;\n  {p}\n  x = 1;\n}}\n")
    add("pragma midline", "int a; #pragma mid\nint b;")
    add("pragma in struct", "struct s {\n#pragma pack(1)\n int a;\n#pragma\n int b;\n};")
    add("pragma after if", "void f(void) { if (a)\n#pragma x\n b(); }")
    add("pragma twice", "#pragma a\n#pragma b\n#pragma\n#pragma c\n")
    add("pragma then line", "#pragma a\n#line 50 \"p.h\"\nint a = @;")
    add("pragma coords", "\n\n   #pragma   spaced   out   \n int a = @;")

    # --- plain '#' -----------------------------------------------------------
    hashes = ["#", "##", "# #", "#define X 1", "#include <stdio.h>", "#if 1", "#lin", "#pragm", "#prag ma",
              "#@", "#\n", "# \n5", "#\t", "a # b", "a ## b", "#'a'", '#"s"', "#l", "#p", "# pragm a", "# lines 5",
              "# line", "#line", "#line\t"]
    for h in hashes:
        add(f"hash {h!r}", f"int a;\n{h}\nint b;")
        add(f"hash-only {h!r}", h)

    # --- larger mixed programs -----------------------------------------------
    add("mixed 1", """
typedef unsigned long size_t;
typedef struct Node { struct Node *next; int v; } Node;
# 10 "mixed.c"
static Node *push(Node *head, int v) {
    Node *n = (Node *) malloc(sizeof(Node));
#pragma omp critical
    n->next = head; n->v = v << 2 | 0x3u;
    return n;
}
#line 100 "other.c" 2
int main(int argc, char **argv) {
    size_t i; double d = 1.5e-3f + 0x1.8p1 + .5;
    wchar_t *w = L"wide" L"r"; char c = '\\n', e = '\\x41';
    for (i = 0; i < 10u; ++i) { d *= i ? 2 : 'ab'; }
    return argc >= 2 && argv[1][0] != '-' ? 0 : 1;
}
""")
    add("mixed 2 (error deep)", """
# 1 "a.c"
int f(int x) {
# 1 "b.h" 1
  int y = x +* 2;
# 5 "a.c" 2
  return y $ 3;
}
""")
    add("mixed 3 (lexer error deep)", """
# 1 "a.c"
int f(int x) {
  char *s = "bad \\% escape";
  return 08;
}
""")
    add("initializers", "struct p { int x, y; } a = { .x = 1, .y = 2 }, b[2] = { [0] = {1, 2}, [1].x = 3 };")
    add("ternary/cast/comma", "void f(void) { a = (int) b ? (c, d) : e[f]->g.h; }")
    add("func ptr", "int (*fp)(int, char *[], ...) = 0; void (*sig(int, void (*)(int)))(int);")
    return S


def main():
    dump_tables()

    section("C files")
    files = []
    for d in ("tests/c_files", "examples/c_files"):
        for root, _dirs, names in sorted(os.walk(d)):
            for nm in sorted(names):
                files.append(os.path.join(root, nm))
    files.sort()
    for path in files:
        with open(path, encoding="utf-8", errors="replace") as f:
            text = f.read()
        big = len(text) > 40000
        print(f"--- FILE {path} ({len(text)} chars)")
        if not big:
            print("  LEX:")
            print(lex_digest(text, path))
        print(parse_digest(text, path))

    section("snippets")
    S = snippets()
    print(f"{len(S)} snippets")
    for name, text in S:
        run(name, text)


if __name__ == "__main__":
    main()
