"""Behaviour digest for pycparser (statements / external declarations /
token helpers / scope helpers area).  Run from the repository root:

    /venv/bin/python equiv.py > out.txt

Deterministic: prints, for each input, either the AST dump with coordinates
plus the regenerated C, or the exception type and message.
"""
import io
import os
import sys

sys.path.insert(0, os.getcwd())

from pycparser import c_parser, c_generator  # noqa: E402
from pycparser.c_parser import _TokenStream  # noqa: E402
from pycparser.c_lexer import CLexer  # noqa: E402


def digest(label, text, filename="<snip>"):
    print("=" * 72)
    print("INPUT", label)
    try:
        parser = c_parser.CParser()
        ast = parser.parse(text, filename)
    except RecursionError as e:  # pragma: no cover
        print("EXC RecursionError")
        return
    except Exception as e:
        print("EXC %s: %s" % (type(e).__name__, e))
        return
    buf = io.StringIO()
    ast.show(buf=buf, showcoord=True, attrnames=True, nodenames=True)
    print(buf.getvalue())
    print("-- scope depth after parse:", len(parser._scope_stack),
          sorted(parser._scope_stack[0].items()))
    try:
        print(c_generator.CGenerator().visit(ast))
    except Exception as e:
        print("GENEXC %s: %s" % (type(e).__name__, e))


def files():
    out = []
    for d in ("tests/c_files", "examples/c_files"):
        for root, _dirs, names in sorted(os.walk(d)):
            _dirs.sort()
            for n in sorted(names):
                if n.endswith((".c", ".h")):
                    out.append(os.path.join(root, n))
    return out


STATEMENTS = [
    ";",
    "x;",
    "x = 1;",
    "x = 1, y = 2;",
    "{ }",
    "{ ; }",
    "{ int a; a = 1; }",
    "{ int a; { int a; { a; } } }",
    "{ T; }",
    "{ T t; }",
    "{ T T; T = 1; }",
    "{ int T; T = 2; }",
    "{ int T; { T * x; } }",
    "{ typedef int U; U u; } ",
    "{ typedef int U; } U u;",
    "if (x) y;",
    "if (x) y; else z;",
    "if (x) if (y) a; else b;",
    "if (x) { } else { }",
    "if (x) ; else ;",
    "if x y;",
    "if (x y;",
    "if () y;",
    "if (x) else y;",
    "if (x) int a;",
    "if (x) _Static_assert(1, \"m\");",
    "switch (x) { }",
    "switch (x) { case 1: break; }",
    "switch (x) { case 1: case 2: a; b; break; default: c; }",
    "switch (x) { default: }",
    "switch (x) { case 1: }",
    "switch (x) { case 1: int a; }",
    "switch (x) { case 1: ; int a; a = 1; default: break; case 3: { } }",
    "switch (x) case 1: y;",
    "switch (x) y;",
    "switch (x) { a; case 1: b; }",
    "switch (x) { case T: ; }",
    "switch (x) { case 1 ; }",
    "switch (x) { case : ; }",
    "switch (x) { default ; }",
    "switch x { }",
    "while (x) y;",
    "while (x) { continue; }",
    "while () y;",
    "while (x) ",
    "while (x)",
    "do x; while (y);",
    "do { } while (y);",
    "do x; while (y)",
    "do x; until (y);",
    "do while (y);",
    "do ; while (y);",
    "for (;;) ;",
    "for (i = 0; i < 10; i++) x;",
    "for (int i = 0; i < 10; i++) x;",
    "for (int i = 0, j = 1; ; ) { i; j; }",
    "for (T i = 0; i; ) ;",
    "for (int i = 0; i < 10; i++) { int i; }",
    "for (;;)",
    "for (;) ;",
    "for (;;;) ;",
    "for (int i; int j; ) ;",
    "for (i = 0, j = 1; i < j; i++, j--) ;",
    "for (struct s { int a; } v; ; ) ;",
    "for (_Static_assert(1, \"a\"); ; ) ;",
    "goto l;",
    "goto T;",
    "goto 1;",
    "goto ;",
    "goto l",
    "break;",
    "break",
    "break 1;",
    "continue;",
    "continue",
    "return;",
    "return 1;",
    "return (1);",
    "return x, y;",
    "return",
    "return 1",
    "return int;",
    "l: x;",
    "l: ;",
    "l: }",
    "l: m: x;",
    "l: int a;",
    "l: _Static_assert(1, \"m\");",
    "l: { }",
    "T: x;",
    "l : case 1: x;",
    "case 1: x;",
    "default: x;",
    "default: }",
    "case 1: }",
    "else x;",
    "x",
    "x y;",
    "int;",
    "int a",
    "int a = ;",
    "1;",
    "\"s\";",
    "'c';",
    "L\"s\" L\"t\";",
    "(x);",
    "(T) x;",
    "(T);",
    "sizeof x;",
    "sizeof(T);",
    "*p = 1;",
    "&x;",
    "-x;",
    "+x;",
    "~x;",
    "!x;",
    "++x;",
    "--x;",
    "x++;",
    "_Alignof(int);",
    "offsetof(struct s, a);",
    "1.5;",
    "0x1p3;",
    "0b11;",
    "#pragma omp parallel\n x;",
    "#pragma\n x;",
    "#pragma a\n#pragma b\n x;",
    "#pragma a\n",
    "if (x)\n#pragma a\n y;",
    "if (x)\n#pragma a\n#pragma b\n y; else\n#pragma c\n z;",
    "while (x)\n#pragma a\n { }",
    "for (;;)\n#pragma a\n ;",
    "do\n#pragma a\n x; while (1);",
    "l:\n#pragma a\n x;",
    "switch (x) { case 1:\n#pragma a\n y; }",
    "switch (x) { default:\n#pragma a\n }",
    "if (x)\n#pragma a\n",
    "_Pragma(\"omp x\") y;",
    "_Pragma(\"omp x\");",
    "_Pragma(\"a\" \"b\") y;",
    "_Pragma(L\"a\") y;",
    "_Pragma(1) y;",
    "_Pragma \"a\" y;",
    "_Pragma(\"a\" y;",
    "_Pragma() y;",
    "if (x) _Pragma(\"a\") y;",
    "if (x) _Pragma(\"a\") _Pragma(\"b\")\n#pragma c\n y;",
    "_Static_assert(1, \"m\");",
    "_Static_assert(1);",
    "_Static_assert(1, \"a\" \"b\");",
    "_Static_assert(sizeof(int) == 4, \"m\"); x;",
    "_Static_assert(1, 2);",
    "_Static_assert(, \"m\");",
    "_Static_assert 1;",
    "_Static_assert(1, \"m\")",
    "_Static_assert(1 \"m\");",
    "_Static_assert(1, L\"m\");",
    "_Static_assert(x = 1, \"m\");",
    "# define X\n x;",
    "x; # y;",
    "{ x; ",
    "{ { x; } ",
    "}",
    "} x;",
    "{ } }",
    "x; $",
    "x = 'ab",
    "x = \"abc;",
    "/* c */ x;",
    "x; // c",
    "{ enum { A, B } e; A; }",
    "{ enum { T } e; T; }",
    "{ enum { T } e; T x; }",
    "{ struct T { int T; } t; }",
    "{ void T(void); T(); }",
    "{ extern int T; { T t; } }",
    "{ int a = T; }",
    "{ T (a); }",
    "{ T (T); }",
    "{ T * T; }",
    "{ T a, T; T = a; }",
    "{ T T, b; }",
    "{ int a, T, b = T; }",
    "{ typedef T V; V v; V V; }",
    "{ typedef int a; int a; }",
    "{ int a; typedef int a; }",
    "{ int a; { typedef int a; a b; } a = 1; }",
    "{ typedef int T; T t; }",
    "{ typedef char T; { int T; } T c; }",
    "{ typedef int a, b; a x; b y; }",
    "{ for (int T = 0; T < 1; T++) ; T t; }",
    "#line 50 \"foo.c\"\n x; y = ;",
    "#line 50 \"foo.c\"\n x;\n#line 7 \"bar.h\"\n y;",
    "# 9 \"z.c\"\n if (x) y; else\n# 100\n z;",
]

EXTERNALS = [
    "",
    " ",
    "\n\n",
    ";",
    ";;;",
    "; int a; ;",
    "int a;",
    "int a, b = 1, *c;",
    "int a",
    "int",
    "int;",
    "a;",
    "a = 1;",
    "int a = 1",
    "int a = ;",
    "static x;",
    "static x = 1;",
    "static x, y;",
    "const x = 2;",
    "extern T;",
    "typedef int T; extern T;",
    "typedef int T; static T;",
    "typedef int T; const T;",
    "typedef int T; T;",
    "typedef int T; T T;",
    "typedef int T; int T;",
    "int T; typedef int T;",
    "typedef int T; typedef int T;",
    "typedef int T; T x; void f(void) { T y; int T; T = 1; }",
    "typedef int T; void f(int T) { T = 1; }",
    "typedef int T; void f(T T) { T = 1; }",
    "typedef int T; void f(T) { }",
    "typedef int T; void f(T (x)) { }",
    "typedef int T; void f(int (T)) { }",
    "typedef int T; void f(void) { { int T; } T x; }",
    "typedef int T; T f(T a, T b) { return a + b; }",
    "typedef int T; T (f)(void) { }",
    "typedef int T; T *f(void) { }",
    "typedef int T; int T(void) { }",
    "typedef int T; T T(void) { }",
    "typedef int f(void) { }",
    "typedef f(void) { }",
    "typedef int;",
    "typedef;",
    "typedef x;",
    "typedef int x, y; x a; y b;",
    "typedef struct s { int a; } s_t; s_t v;",
    "int f(void) { }",
    "int f(void) { return 0; }",
    "int f() { }",
    "f() { }",
    "f() { return 1; }",
    "f(a, b) int a; char b; { return a; }",
    "f(a, b) int a; char b; ",
    "f(a, b) int a; char b; x",
    "f(a) int a; ;",
    "f(a) a; { }",
    "int f(a, b) int a, b; { return a; }",
    "int f(a) int a; ",
    "int f(a) int a; = 1;",
    "int f(a) T a; { }",
    "typedef int T; int f(a) T a; { }",
    "static f() { }",
    "static inline f(void) { }",
    "inline f(void);",
    "f();",
    "f() ;",
    "f() int",
    "f",
    "f(",
    "f()",
    "f() {",
    "f() { }}",
    "f() { } }",
    "f() { } g() { } int h() { }",
    "*f() { }",
    "(f)() { }",
    "(*f)() { }",
    "(*f())[3] { }",
    "*f;",
    "(f);",
    "1;",
    "+;",
    "{ }",
    "}",
    ")",
    "int f(void) { } }",
    "int f(void) { } ;",
    "int f(void) { }; int g;",
    "int f(void) { int f; f = 1; }",
    "int f(void), g(void);",
    "int f(void), g(void) { }",
    "int a, f(void) { }",
    "int f(void) = 1;",
    "int f(void) int a; { }",
    "int (f)(void) { }",
    "int (*f)(void) { }",
    "int (*f(void))(int) { return 0; }",
    "int *f(void) { }",
    "int f[3] { }",
    "int f { }",
    "int a = 1 { }",
    "int a[] = {1, 2, 3};",
    "int a[2] = {[0] = 1, [1] = 2}, b;",
    "struct s { int a; } v = {.a = 1};",
    "struct s;",
    "struct s { int a; };",
    "struct { int a; };",
    "union u { int a; float b; };",
    "enum e { A, B = 2, C };",
    "enum e;",
    "enum { A }; int a = A;",
    "enum { A }; typedef int A;",
    "typedef int A; enum { A };",
    "struct s f(void) { }",
    "struct s { int a; } f(void) { }",
    "struct s { int a; } f() struct s x; { }",
    "const struct s;",
    "static struct s { int x; };",
    "int struct s;",
    "struct s int;",
    "long long x;",
    "unsigned f(void) { }",
    "void f(int a, ...) { }",
    "void f(void) { f(); }",
    "void f(int a) { int a; }",
    "void f(int a) { typedef int a; }",
    "void f(void) { } void g(void) { f(); }",
    "void f(void) { l: ; goto l; }",
    "void f(void) { if (1) return; else { return; } }",
    "_Noreturn void f(void) { for (;;) ; }",
    "_Thread_local int x;",
    "_Alignas(8) int x;",
    "_Alignas(int) f() { }",
    "_Atomic(int) x;",
    "_Atomic int x;",
    "_Atomic(int) f(void) { }",
    "_Static_assert(1, \"m\");",
    "_Static_assert(1, \"m\")",
    "_Static_assert(1, \"m\") int a;",
    "_Static_assert(1, \"m\"); int a;",
    "_Static_assert(1);",
    "_Static_assert(1); _Static_assert(2, \"x\" \"y\");",
    "_Static_assert;",
    "_Static_assert(",
    "int a; _Static_assert(sizeof(a) == 4, \"m\"); int b;",
    "#pragma once",
    "#pragma once\n",
    "#pragma once\nint a;",
    "#pragma\nint a;",
    "#pragma a\n#pragma b\n",
    "int a;\n#pragma pack(1)\nstruct s { int a; };\n#pragma pack()\n",
    "int a\n#pragma x\n;",
    "int f(void)\n#pragma x\n{ }",
    "struct s {\n#pragma x\n int a;\n#pragma y\n};",
    "struct s {\n#pragma x\n};",
    "_Pragma(\"once\")",
    "_Pragma(\"once\") int a;",
    "_Pragma(\"once\"); int a;",
    "_Pragma(\"a\" \"b\") int a;",
    "_Pragma(once) int a;",
    "_Pragma",
    "_Pragma(",
    "_Pragma(\"x\"",
    "int a; _Pragma(\"x\") _Pragma(\"y\") int b;",
    "#define X 1\nint a;",
    "int a;\n#include <stdio.h>\n",
    "#",
    "int a; #",
    "# 1 \"f.c\"\nint a;\n# 10 \"g.h\" 1\nint b;\nint c = ;",
    "#line 5\nint a; int a b;",
    "#line 5 \"x.c\"\nfoo() { return }",
    "#line 5 \"x.c\"\n}",
    "#line 5 \"x.c\"\nint f(void) { }\n#line 1 \"y.c\"\n}",
    "#line 5 \"x.c\"\ntypedef int T;\n#line 9 \"y.c\"\nint T;",
    "#line 5 \"x.c\"\nint T;\n#line 9 \"y.c\"\ntypedef int T;",
    "#line x\nint a;",
    "#line 5 6\nint a;",
    "int a; $",
    "int a = 'ab;",
    "int a = 09;",
    "char *s = \"abc;",
    "int a @ b;",
    "int a; /* unterminated",
    "int a; // comment\nint b;",
    "int\va;\fint b;",
    "void f(void) { int a; } int a; void g(void) { a = 1; }",
    "void f(void) { typedef int T; T a; } int T;",
    "void f(void) { typedef int T; } T a;",
    "typedef int T; void f(void) { int T; } T a;",
    "typedef int T; void f(void) { int T; { T = 1; } } T a;",
    "typedef int T; struct s { T T; };",
    "typedef int T; struct s { T a; int T; T b; };",
    "typedef int T; void f(void) { struct s { int T; } v; T x; }",
    "typedef int T; void f(void) { for (int T = 0; ; ) { T++; } T x; }",
    "typedef int T; void f(void) { sizeof(T); sizeof T; }",
    "typedef int T; void f(void) { (T) 1; (T); }",
    "typedef int T; void f(void) { T: ; goto T; }",
    "typedef int T; void f(void) { x: T y; }",
    "typedef int T; enum { T };",
    "typedef int T; enum e { A = sizeof(T) };",
    "typedef int T; void f(void) { enum { T }; T; }",
    "typedef int T; int f(int T);",
    "typedef int T; int f(int T) { return T; } T x;",
    "typedef int T; int f(T), g(T T);",
    "typedef int T; int x = sizeof(T), T = 1, y = T;",
    "typedef int T, *PT; PT p; T t;",
    "typedef int (*F)(void); F f;",
    "typedef int A[3]; A a;",
    "int x; int x;",
    "int x; typedef int x;",
    "void f(void) { int x; { typedef int x; x y; } x = 1; }",
    "void f(void) { int x; { typedef int x; } x y; }",
]


def token_stream_digest():
    """Exercise _TokenStream directly (peek / next / mark / reset)."""
    print("=" * 72)
    print("TOKENSTREAM")
    errors = []

    def make(text):
        lx = CLexer(
            error_func=lambda m, l, c: errors.append((m, l, c)),
            on_lbrace_func=lambda: None,
            on_rbrace_func=lambda: None,
            type_lookup_func=lambda n: n == "T",
        )
        lx.input(text, "ts.c")
        return _TokenStream(lx)

    def show(t):
        return None if t is None else (t.type, t.value, t.lineno, t.column)

    for text in ["", "a", "a b", "T a = 1 ;", "int x; { T y; }", "a\nb\n c"]:
        ts = make(text)
        print("TEXT", repr(text))
        for k in (0, -1, 1):
            print(" peek", k, show(ts.peek(k)))
        m0 = ts.mark()
        print(" mark", m0)
        seq = []
        for _ in range(4):
            seq.append(show(ts.next()))
        print(" next*4", seq, "mark", ts.mark())
        ts.reset(m0)
        print(" reset -> peek1", show(ts.peek()), "mark", ts.mark())
        try:
            print(" peek2", show(ts.peek(2)))
        except Exception as e:
            print(" peek2 EXC", type(e).__name__, e)
        try:
            print(" peek3", show(ts.peek(3)))
        except Exception as e:
            print(" peek3 EXC", type(e).__name__, e)
        print(" next", show(ts.next()), "mark", ts.mark())
        m1 = ts.mark()
        print(" next", show(ts.next()), "next", show(ts.next()))
        ts.reset(m1)
        print(" after reset", show(ts.peek()), ts.mark(), "buffer", len(ts._buffer))
    print(" lexer errors", errors)


def helper_digest():
    """Exercise the private token / scope helpers of CParser directly."""
    print("=" * 72)
    print("HELPERS")
    p = c_parser.CParser()

    def start(text):
        p._scope_stack = [dict()]
        p.clex.input(text, "h.c")
        p._tokens = _TokenStream(p.clex)

    def show(t):
        return None if t is None else (t.type, t.value, t.lineno, t.column)

    def attempt(label, fn, *a, **kw):
        try:
            r = fn(*a, **kw)
            if hasattr(r, "type") and hasattr(r, "lineno"):
                r = show(r)
            print(" ", label, "->", r)
        except Exception as e:
            print(" ", label, "EXC", type(e).__name__, e)

    for text in ["", "x", "x : y", "int a ;", "T t", "{ } }", "# x", "; ;",
                 "#pragma z\nq", "_Pragma ( \"s\" )", "_Static_assert ( 1 )",
                 "* p", "( a )", "1 + 2", "\"s\"", "case 1 :", "if ( x )",
                 "return ;", "= 1", "+= 1", "[ 1 ]"]:
        print("TEXT", repr(text))
        start(text)
        p._add_typedef_name("T", None)
        attempt("peek", p._peek)
        attempt("peek2", p._peek, 2)
        attempt("peek0", p._peek, 0)
        attempt("peek_type", p._peek_type)
        attempt("peek_type2", p._peek_type, 2)
        attempt("starts_declaration", p._starts_declaration)
        attempt("starts_expression", p._starts_expression)
        attempt("starts_statement", p._starts_statement)
        attempt("starts_declarator", p._starts_declarator)
        attempt("starts_declarator(id_only)", p._starts_declarator, id_only=True)
        attempt("starts_direct_abstract", p._starts_direct_abstract_declarator)
        attempt("is_assignment_op", p._is_assignment_op)
        tok = p._peek()
        if tok is not None:
            attempt("starts_declaration(tok)", p._starts_declaration, tok)
            attempt("starts_expression(tok)", p._starts_expression, tok)
            attempt("tok_coord", lambda: str(p._tok_coord(tok)))
        m = p._mark()
        attempt("accept ID", p._accept, "ID")
        attempt("accept SEMI", p._accept, "SEMI")
        attempt("accept INT", p._accept, "INT")
        attempt("mark", p._mark)
        attempt("expect ID", p._expect, "ID")
        attempt("expect COLON", p._expect, "COLON")
        attempt("advance", p._advance)
        attempt("advance", p._advance)
        attempt("advance", p._advance)
        attempt("advance", p._advance)
        attempt("mark", p._mark)
        p._reset(m)
        attempt("after reset peek", p._peek)
        attempt("scope depth", lambda: len(p._scope_stack))

    print("SCOPES")
    p._scope_stack = [dict()]
    p.clex.input("", "sc.c")
    c1 = p._coord(3, 4)
    c2 = p._coord(5)
    print(" coords", str(c1), str(c2), repr(c1), repr(c2))
    attempt("is_type T (empty)", p._is_type_in_scope, "T")
    attempt("add_typedef T", p._add_typedef_name, "T", c1)
    attempt("add_typedef T again", p._add_typedef_name, "T", c2)
    attempt("is_type T", p._is_type_in_scope, "T")
    attempt("add_identifier T", p._add_identifier, "T", c2)
    attempt("add_identifier x", p._add_identifier, "x", c1)
    attempt("add_identifier x again", p._add_identifier, "x", None)
    attempt("add_typedef x", p._add_typedef_name, "x", c1)
    attempt("add_typedef x (None coord)", p._add_typedef_name, "x", None)
    attempt("is_type x", p._is_type_in_scope, "x")
    attempt("lookup func T", p._lex_type_lookup_func, "T")
    attempt("push", p._push_scope)
    attempt("is_type T (inner)", p._is_type_in_scope, "T")
    attempt("add_identifier T (inner)", p._add_identifier, "T", c1)
    attempt("is_type T (shadowed)", p._is_type_in_scope, "T")
    attempt("add_typedef x (inner)", p._add_typedef_name, "x", c1)
    attempt("is_type x (inner)", p._is_type_in_scope, "x")
    attempt("push", p._lex_on_lbrace_func)
    attempt("is_type x (inner2)", p._is_type_in_scope, "x")
    attempt("is_type T (inner2)", p._is_type_in_scope, "T")
    attempt("is_type nope", p._is_type_in_scope, "nope")
    print("  stack", [sorted(s.items()) for s in p._scope_stack])
    attempt("pop", p._pop_scope)
    attempt("pop", p._lex_on_rbrace_func)
    attempt("is_type T (outer)", p._is_type_in_scope, "T")
    attempt("is_type x (outer)", p._is_type_in_scope, "x")
    attempt("pop at file scope", p._pop_scope)
    attempt("pop at file scope (lexer cb)", p._lex_on_rbrace_func)
    print("  stack", [sorted(s.items()) for s in p._scope_stack])
    attempt("parse_error coord", p._parse_error, "boom", c1)
    attempt("parse_error str", p._parse_error, "boom", "file.c")
    attempt("parse_error None", p._parse_error, "boom", None)
    attempt("lex_error", p._lex_error_func, "bad", 7, 9)

    print("REUSE")
    # The same parser object reused after a failure must start clean.
    for text in ["typedef int T; void f(void) { T x; {", "T x;", "typedef int T; T x;",
                 "int T;", "void f(void) { } }", "int a;"]:
        try:
            ast = p.parse(text, "reuse.c")
            buf = io.StringIO()
            ast.show(buf=buf, showcoord=True)
            print(buf.getvalue().rstrip())
        except Exception as e:
            print(" EXC", type(e).__name__, e)
        print("  stack", [sorted(s.items()) for s in p._scope_stack])


def main():
    for path in files():
        with open(path) as f:
            text = f.read()
        digest("FILE " + path, text, path)

    n = 0
    for s in STATEMENTS:
        n += 1
        digest("STMT %d %r" % (n, s), "typedef int T; void f(void) {\n" + s + "\n}")
    for s in STATEMENTS[::3]:
        n += 1
        # the same statement as the body of a nested construct
        digest("NEST %d %r" % (n, s),
               "void f(void) { while (1) { if (x)\n" + s + "\n z; } }")
    for s in EXTERNALS:
        n += 1
        digest("EXT %d %r" % (n, s), s)
    for s in EXTERNALS[::4]:
        n += 1
        digest("EXT2 %d %r" % (n, s), "int before;\n" + s + "\nint after;", "two.c")
    print("TOTAL SNIPPETS", n)
    token_stream_digest()
    helper_digest()


if __name__ == "__main__":
    main()
