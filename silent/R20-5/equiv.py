"""Behavioural digest of utils/fake_libc_include.

Run from the repository root:

    /venv/bin/python equiv.py > out.txt

For every header H that is tracked at HEAD under utils/fake_libc_include
(single inclusion and double inclusion), and for 30 fixed pairs/triples of
headers in both orders, a small C file consisting of `#include <H>` lines is
run through

    cpp -nostdinc -I utils/fake_libc_include -dD

and a digest is printed:

  * the sorted set of macros that are defined at the end of the translation
    unit (name, parameter list and replacement text), ignoring the compiler's
    predefined macros and ignoring include-guard macros (see below);
  * the typedefs (and any other top-level declarations) obtained by parsing
    the preprocessed text with pycparser, each printed via CGenerator and
    sorted by name; duplicates are kept so a repeated definition would show;
  * or the error (cpp failure / pycparser ParseError).

Include-guard macros are not part of the digest: a macro NAME is a guard iff
some header under utils/fake_libc_include contains the conventional

    #ifndef NAME
    #define NAME            (empty replacement)

pair on two consecutive directive lines.  Adding a guard or renaming one
therefore leaves the digest unchanged, while every macro with a replacement
text, and every flag macro that is not a guard (e.g. _XFUNCPROTOBEGIN), is
still reported.

The list of headers is taken from HEAD (`git ls-tree`), so that a refactoring
which adds a new *internal* header does not change the set of cases; headers
present in the working tree but not in HEAD are checked for self-containedness
and idempotence and reported on stderr only.

Identical digests are printed once in full (under their sha256) and referred
to by hash from each case, to keep the output small; the output is fully
deterministic, so two runs can be compared byte for byte.
"""

import hashlib
import os
import re
import subprocess
import sys
import tempfile

sys.path.insert(0, os.getcwd())

from pycparser import c_ast, c_generator, c_parser  # noqa: E402

INC = os.path.join("utils", "fake_libc_include")
CPP = ["cpp", "-nostdinc", "-I", INC, "-dD"]

# 30 fixed combinations (22 pairs, 8 triples); each is run forwards and
# reversed.
COMBOS = [
    ("_fake_defines.h", "_fake_typedefs.h"),
    ("_fake_typedefs.h", "stdio.h"),
    ("_fake_defines.h", "X11/_X11_fake_defines.h"),
    ("X11/_X11_fake_typedefs.h", "X11/_X11_fake_defines.h"),
    ("X11/_X11_fake_typedefs.h", "_fake_typedefs.h"),
    ("X11/Xlib.h", "X11/Intrinsic.h"),
    ("X11/Xlib.h", "stdio.h"),
    ("X11/Intrinsic.h", "zlib.h"),
    ("zlib.h", "stdio.h"),
    ("zlib.h", "_fake_typedefs.h"),
    ("stdint.h", "inttypes.h"),
    ("inttypes.h", "stdatomic.h"),
    ("math.h", "tgmath.h"),
    ("complex.h", "tgmath.h"),
    ("time.h", "threads.h"),
    ("pthread.h", "semaphore.h"),
    ("sys/types.h", "sys/socket.h"),
    ("sys/time.h", "time.h"),
    ("poll.h", "sys/poll.h"),
    ("xcb/xcb.h", "mir_toolkit/client_types.h"),
    ("stdbool.h", "stdalign.h"),
    ("stdarg.h", "stddef.h"),
    ("stdio.h", "stdlib.h", "string.h"),
    ("X11/Xlib.h", "zlib.h", "stdint.h"),
    ("X11/_X11_fake_defines.h", "X11/Xlib.h", "X11/_X11_fake_typedefs.h"),
    ("inttypes.h", "tgmath.h", "threads.h"),
    ("_fake_typedefs.h", "pthread.h", "_fake_defines.h"),
    ("zlib.h", "zlib.h", "X11/Intrinsic.h"),
    ("stdatomic.h", "stdnoreturn.h", "threads.h"),
    ("netinet/in.h", "arpa/inet.h", "linux/socket.h"),
]

_DIRECTIVE = re.compile(r"^[ \t]*#[ \t]*(\w+)[ \t]*(.*?)[ \t]*$")
_LINEMARK = re.compile(r'^#(?:line)?\s+\d+\s+"([^"]*)"')
_DEFINE = re.compile(r"^#define\s+([A-Za-z_]\w*)(\([^)]*\))?\s*(.*?)\s*$")
_UNDEF = re.compile(r"^#undef\s+([A-Za-z_]\w*)")


def head_headers():
    out = subprocess.run(
        ["git", "ls-tree", "-r", "--name-only", "HEAD", INC],
        check=True,
        capture_output=True,
        text=True,
    ).stdout
    prefix = INC.replace(os.sep, "/") + "/"
    names = [
        line[len(prefix):]
        for line in out.splitlines()
        if line.startswith(prefix) and line.endswith(".h")
    ]
    return sorted(names)


def tree_headers():
    names = []
    for root, _dirs, files in os.walk(INC):
        for f in files:
            if f.endswith(".h"):
                rel = os.path.relpath(os.path.join(root, f), INC)
                names.append(rel.replace(os.sep, "/"))
    return sorted(names)


def guard_macros():
    """Names used as conventional include guards in the working tree."""
    guards = set()
    for name in tree_headers():
        with open(os.path.join(INC, name), encoding="latin-1") as fh:
            directives = []
            for line in fh:
                m = _DIRECTIVE.match(line)
                if m:
                    directives.append((m.group(1), m.group(2)))
        for (d1, a1), (d2, a2) in zip(directives, directives[1:]):
            if d1 == "ifndef" and d2 == "define":
                a1 = re.sub(r"/\*.*?\*/", "", a1).strip()
                a2 = re.sub(r"/\*.*?\*/", "", a2).strip()
                if a1 == a2 and re.fullmatch(r"[A-Za-z_]\w*", a1):
                    guards.add(a1)
    return guards


def preprocess(headers):
    src = "".join("#include <%s>\n" % h for h in headers)
    with tempfile.TemporaryDirectory() as tmp:
        path = os.path.join(tmp, "t.c")
        with open(path, "w") as fh:
            fh.write(src)
        proc = subprocess.run(CPP + [path], capture_output=True, text=True)
    if proc.returncode != 0:
        err = proc.stderr.replace(tmp, "<tmp>")
        raise RuntimeError("cpp failed:\n" + err)
    if proc.stderr.strip():
        raise RuntimeError("cpp diagnostics:\n" + proc.stderr.replace(tmp, "<tmp>"))
    return proc.stdout


def digest(headers, guards):
    try:
        text = preprocess(headers)
    except RuntimeError as e:
        return "ERROR " + str(e)

    macros = {}
    code = []
    current = ""
    for line in text.splitlines():
        m = _LINEMARK.match(line)
        if m:
            current = m.group(1)
            code.append(line)
            continue
        m = _DEFINE.match(line)
        if m:
            if not current.startswith("<"):
                macros[m.group(1)] = (m.group(2) or "", m.group(3))
            code.append("")
            continue
        m = _UNDEF.match(line)
        if m:
            if not current.startswith("<"):
                macros.pop(m.group(1), None)
            code.append("")
            continue
        code.append(line)

    lines = ["macros:"]
    for name in sorted(macros):
        if name in guards:
            continue
        params, body = macros[name]
        lines.append("  %s%s => %s" % (name, params, body))

    try:
        ast = c_parser.CParser().parse("\n".join(code) + "\n", "<pp>")
    except Exception as e:  # ParseError and anything unexpected
        msg = re.sub(r"^.*?(utils/fake_libc_include)", r"\1", str(e))
        msg = re.sub(r":\d+:\d+:", ":", msg)
        lines.append("PARSE ERROR %s: %s" % (type(e).__name__, msg))
        return "\n".join(lines)

    gen = c_generator.CGenerator()
    typedefs = []
    others = []
    for node in ast.ext:
        if isinstance(node, c_ast.Typedef):
            typedefs.append((node.name, gen.visit(node)))
        else:
            others.append("%s %s" % (type(node).__name__, gen.visit(node)))
    lines.append("typedefs:")
    for name, c in sorted(typedefs):
        lines.append("  %s :: %s" % (name, c.replace("\n", "\n      ")))
    lines.append("other declarations:")
    for c in others:
        lines.append("  " + c.replace("\n", "\n      "))
    return "\n".join(lines)


def main():
    guards = guard_macros()
    tracked = head_headers()

    cases = []
    for h in tracked:
        cases.append(("single %s" % h, (h,)))
    for h in tracked:
        cases.append(("twice %s" % h, (h, h)))
    for combo in COMBOS:
        cases.append(("combo %s" % " + ".join(combo), combo))
        rev = tuple(reversed(combo))
        cases.append(("combo %s" % " + ".join(rev), rev))

    seen = {}
    index = []
    for label, headers in cases:
        d = digest(headers, guards)
        key = hashlib.sha256(d.encode("utf-8")).hexdigest()[:16]
        if key not in seen:
            seen[key] = d
        index.append((label, key))

    print("cases: %d, distinct digests: %d" % (len(index), len(seen)))
    print()
    for label, key in index:
        print("%-70s %s" % (label, key))
    print()
    for key in sorted(seen):
        print("=== digest %s" % key)
        print(seen[key])
        print()

    # Headers that only exist in the working tree (new internal headers):
    # they must at least be self-contained and idempotent.  Reported on
    # stderr so that stdout stays comparable with the baseline.
    extra = [h for h in tree_headers() if h not in set(tracked)]
    for h in extra:
        for hs in ((h,), (h, h)):
            d = digest(hs, guards)
            bad = d.startswith("ERROR") or "PARSE ERROR" in d
            sys.stderr.write(
                "new header %s x%d: %s\n" % (h, len(hs), "FAILED\n" + d if bad else "ok")
            )
    missing = [h for h in tracked if not os.path.exists(os.path.join(INC, h))]
    for h in missing:
        sys.stderr.write("tracked header missing from working tree: %s\n" % h)


if __name__ == "__main__":
    main()
