"""Behaviour digest for pycparser (focus: declarations / declarators).

Run from the repository root:
    /venv/bin/python equiv.py > out.txt

For every input prints either the AST dump with coordinates plus the
regenerated C, or the exception type and message.  Fully deterministic.
"""
import io
import os
import re
import sys

sys.path.insert(0, os.getcwd())
sys.setrecursionlimit(10000)

from pycparser import c_parser, c_generator  # noqa: E402


def digest(label, text, filename="<src>"):
    print("=" * 72)
    print("INPUT", label)
    parser = c_parser.CParser()
    try:
        ast = parser.parse(text, filename)
    except Exception as e:  # noqa: BLE001
        print("EXC", type(e).__name__, str(e))
        return
    buf = io.StringIO()
    ast.show(buf=buf, attrnames=True, nodenames=True, showcoord=True)
    print(buf.getvalue(), end="")
    print("-" * 32)
    try:
        print(c_generator.CGenerator().visit(ast))
    except Exception as e:  # noqa: BLE001
        print("GENEXC", type(e).__name__, str(e))


def all_files():
    out = []
    for root in ("tests/c_files", "examples/c_files"):
        for dirpath, dirnames, filenames in os.walk(root):
            dirnames.sort()
            for fn in sorted(filenames):
                out.append(os.path.join(dirpath, fn))
    return sorted(out)


def strip(text):
    """Remove comments and non-pragma preprocessor lines (keeps line count)."""
    text = re.sub(
        r"/\*.*?\*/", lambda m: "\n" * m.group(0).count("\n") or " ", text, flags=re.S
    )
    text = re.sub(r"//[^\n]*", "", text)
    lines = []
    for line in text.split("\n"):
        st = line.lstrip()
        if st.startswith("#") and not st.startswith("#pragma"):
            line = ""
        lines.append(line)
    return "\n".join(lines)


HAND = [
    # --- simple declarations / specifiers ---------------------------------
    "int a;",
    "int a, b, c;",
    "int a = 1, *b = 0, c[3] = {1, 2, 3};",
    "unsigned long long int x;",
    "long unsigned int long y;",
    "const volatile int cv;",
    "int const volatile cv2;",
    "static const int sc = 5;",
    "extern int e1; extern int e1;",
    "register int r;",
    "auto int au;",
    "_Thread_local int tl;",
    "static _Thread_local int stl;",
    "inline int f(void);",
    "_Noreturn void die(void);",
    "static inline _Noreturn void die2(void) { for(;;); }",
    "_Bool b; _Complex double cd; __int128 big;",
    "signed char sc1; unsigned char uc1; short int si;",
    "float f1; double d1; long double ld1;",
    "void *vp;",
    "restrict int *bad_but_parsed;",
    "int * restrict rp; int * const cp; int * volatile vp2;",
    "int * const * volatile * restrict pppp;",
    "_Atomic int ai;",
    "_Atomic(int) ai2;",
    "_Atomic(int *) aip;",
    "_Atomic(int) *pai;",
    "_Atomic(_Atomic(int) *) aap;",
    "const _Atomic(unsigned) cau;",
    "_Atomic(int[3]) bad_arr;",
    "_Atomic(int (void)) bad_fn;",
    "_Atomic int * _Atomic aq;",
    "_Alignas(8) int al8;",
    "_Alignas(double) char ald;",
    "_Alignas(8) _Alignas(16) int al2;",
    "static _Alignas(4) const int al3 = 0;",
    "_Alignas(int *) char alp;",
    "_Alignas(1 + 2 * 3) char ale;",
    "_Alignas(8);",
    "_Alignas(8) x;",
    # --- typedefs ---------------------------------------------------------
    "typedef int T; T t;",
    "typedef int T; T a, *b, c[2], (*d)(T);",
    "typedef int T, *PT, AT[4], (*FT)(int);",
    "typedef int T; typedef T U; U u;",
    "typedef int T; void f(void) { int T; T = 3; }",
    "typedef int T; void f(void) { T T; }",
    "typedef int T; void f(void) { unsigned T; }",
    "typedef int T; void f(void) { const T; }",
    "typedef int T; void f(T T) { T = 1; }",
    "typedef int T; void f(int T) { T = 1; }",
    "typedef int T; struct s { T T; };",
    "typedef int T; struct s { unsigned T; };",
    "typedef int T; struct s { unsigned T:3; const T:3; };",
    "typedef int T; int f(int (T));",
    "typedef int T; int f(int (x));",
    "typedef int T; int f(int (*T));",
    "typedef int T; int f(int *(T));",
    "typedef int T; int f(int (T)(int));",
    "typedef int T; int f(int (T[3]));",
    "typedef int T; int f(T (T));",
    "typedef int T; int f(const T);",
    "typedef int T; int f(unsigned T);",
    "typedef int T; int f(T, T x, T *y);",
    "typedef int T; T (x);",
    "typedef int T; int (T);",
    "typedef int T; T T;",
    "typedef int T; int T;",
    "typedef int T; typedef int T;",
    "int x; typedef int x;",
    "typedef int x; int x;",
    "typedef struct S { int a; } S, *PS; S s; PS ps;",
    "typedef struct S S; struct S { S *next; };",
    "typedef enum { A, B } E; E e = A;",
    "typedef int (*fp_t)(int, char **); fp_t table[4];",
    "typedef void (*sig_t)(int); sig_t signal(int, sig_t);",
    "typedef;",
    "typedef int;",
    "typedef int T; typedef T;",
    "typedef int f(void) { }",
    "typedef int T = 3;",
    "int typedef TT; TT tt;",
    "typedef int T; T;",
    "typedef int T; T T2, T3;",
    "typedef char T; void f(void) { T x; { int T; T = 1; } T y; }",
    # --- pointers / arrays / functions ------------------------------------
    "int *p, **pp, ***ppp;",
    "int a[10]; int b[]; int c[2][3][4];",
    "int *ap[10]; int (*pa)[10]; int *(*pap)[10];",
    "int (*fp)(void); int *(*fpp)(int); int (**fppp)(int, int);",
    "int (*afp[5])(int); int (*(*pafp)[5])(int);",
    "int (*ret_fp(int))(char); int (*(*ret_fp2)(int))(char);",
    "int (*(*(*x3)(void))[3])(int);",
    "char *(*(*(*c4)[5])(void))[7];",
    "int (((x)));  int ((*((y))));",
    "int (f)(int); int (*(g))(int);",
    "int f(int a[static 10]);",
    "int f(int a[const 10]);",
    "int f(int a[static const 10]);",
    "int f(int a[const static 10]);",
    "int f(int a[const restrict volatile static 10]);",
    "int f(int a[*]);",
    "int f(int a[const *]);",
    "int f(int a[*p]);",
    "int f(int a[const]);",
    "int f(int n, int a[n][n * 2]);",
    "int f(int a[restrict]);",
    "int f(int a[static]);",
    "int f(int a[const static]);",
    "int f(int [*]); int g(int [static 3]); int h(int [const]);",
    "int f(int [const *]); int g(int [const 3]);",
    "int a[sizeof(int) * 2]; int b[(3)]; int c[1 ? 2 : 3];",
    "int a[1, 2];",
    "int a[;",
    "int a[3;",
    "int a[3]];",
    "int f(int a[static 3);",
    "int f(;",
    "int f(int;",
    "int f(int,);",
    "int f(,int);",
    "int f(...);",
    "int f(int, ...);",
    "int f(int, ..., int);",
    "int f(int a, ...) { return a; }",
    "int f(void); int g(); int h(void) { return 0; }",
    "int f(a, b, c);",
    "int f(a, b) int a; char b; { return a + b; }",
    "int f(a, b) int a, b; { return a + b; }",
    "f(a) { return a; }",
    "f() { return 5; }",
    "f();",
    "*f() { return 0; }",
    "static f(void) { return 1; }",
    "static g(a, b) int a; int b; { return a; }",
    "const f(void) { return 1; }",
    "inline f(void) { return 1; }",
    "int f(a, int b);",
    "int f(int a, b);",
    "int f(a,);",
    "int f(a) int a; ;",
    "int f(a) int a;",
    "int f(void) int x; { }",
    "int f(int x) { int x2; return x; } int x;",
    "int main(int argc, char *argv[]) { return argc; }",
    "int main(int argc, char **argv, char *envp[static 1]) { return 0; }",
    "void f(int (*cb)(int, void *), void *ud);",
    "void f(int cb(int, void *));",
    "void f(int (int));",
    "void f(int (*)(int));",
    "void f(int *, char **, const char *const *);",
    "void f(int (*)[3], int (*[3])(void), int *[3]);",
    "void f(int [], int [3], int [3][4]);",
    "void f(int ());",
    "void f(int (void));",
    "void f(int (*(*)(int))[2]);",
    "void f(register int x, const y);",
    "void f(const, volatile);",
    "void f(static);",
    "void f(struct s *p, union u v, enum e w);",
    "void f(struct { int a; } x);",
    "void f(void) { int (*p)(int) = 0; int *q[2]; }",
    "int (*f(void))[3] { return 0; }",
    "int (*f)(void) { return 0; }",
    "int f(void) g(void);",
    "int a[3](void);",
    "int f(void)[3];",
    "int 3;",
    "int *;",
    "int (;",
    "int );",
    "int (*);",
    "int (*)(int);",
    "int x y;",
    "int x, ;",
    "int , x;",
    "int x = ;",
    "int x = 1 2;",
    "int;",
    "int int;",
    "int struct s;",
    "struct s int x;",
    "int struct s x;",
    "struct s union u x;",
    "enum e struct s x;",
    "int enum e x;",
    "const;",
    "static;",
    "const x;",
    "static x;",
    "static x = 3, y;",
    "extern a[];",
    "const *p;",
    ";",
    ";;;",
    "",
    "   \n\n  ",
    "int a; ; int b;",
    # --- struct / union / enum --------------------------------------------
    "struct s;",
    "union u;",
    "struct s { int a; };",
    "union u { int a; float f; };",
    "struct s { int a; } x, *px, ax[3];",
    "struct { int a; } anon;",
    "struct { };",
    "struct s { };",
    "struct s { } x;",
    "union { } x;",
    "struct s { int a, b; char *c; int d[3]; int (*e)(void); };",
    "struct s { int a:3; unsigned b:1, c:2; int :0; int :4, d:1; };",
    "struct s { int a:3 + 1; int b : sizeof(int); };",
    "struct s { const int a; volatile int *b; int * const c; };",
    "struct s { struct t { int x; } inner; union { int i; float f; }; };",
    "struct s { struct { int x; }; struct t; int; };",
    "struct s { int; };",
    "struct s { unsigned long; };",
    "struct s { const; };",
    "struct s { int a; ; ; int b; };",
    "struct s { ; };",
    "struct s { int a };",
    "struct s { int a; ",
    "struct s { int a; } ",
    "struct s { static int a; };",
    "struct s { typedef int a; };",
    "struct s { inline int a; };",
    "struct s { int a = 3; };",
    "struct s { int f(void) { } };",
    "struct s { _Alignas(8) int a; _Alignas(double) char c; };",
    "struct s { _Alignas(8); };",
    "struct s { _Atomic int a; _Atomic(int) b; _Atomic(int *) c; };",
    "struct s { _Static_assert(1, \"m\"); int a; };",
    "struct s { _Static_assert(1); };",
    "struct s {\n#pragma pack(1)\n int a;\n#pragma pack()\n};",
    "struct s { _Pragma(\"pack(1)\") int a; };",
    "struct s { int a[]; };",
    "struct s { int n; int a[0]; };",
    "struct s { int (*f)(struct s *self); };",
    "struct s { struct s *next, *prev; };",
    "struct s { enum { X, Y } tag; };",
    "struct s { enum e; };",
    "struct s { int :3; };",
    "struct s { :3; };",
    "struct s { int a: ; };",
    "struct s { int a:3 };",
    "struct s { int *; };",
    "struct s { int a, ; };",
    "struct s { int , a; };",
    "struct;",
    "struct 3;",
    "struct s *;",
    "struct s x y;",
    "struct { int a; } ;",
    "struct s { int a; } const cs;",
    "const struct s { int a; } cs2;",
    "struct s const cs3;",
    "typedef int T; struct T { int a; }; struct T t; union T2 { T x; };",
    "typedef int T; struct s { T; };",
    "typedef int T; struct s { T x, y; T *z; };",
    "typedef int T; struct s { int T; };",
    "typedef int T; struct s { const T *T; };",
    "struct s { int a; }; struct s x = { 1 }; struct s y = { .a = 1 };",
    "enum e;",
    "enum e { A };",
    "enum e { A, B, C };",
    "enum e { A, B, C, };",
    "enum e { A = 1, B = A + 1, C = sizeof(int), D = (int)3 };",
    "enum { A, B } x;",
    "enum e { A } x = A, *px;",
    "enum e { };",
    "enum { };",
    "enum e { , };",
    "enum e { A B };",
    "enum e { A = };",
    "enum e { A, B ",
    "enum e { 3 };",
    "enum;",
    "enum 3;",
    "enum e x;",
    "enum e { A }; int A;",
    "enum e { A }; typedef int A;",
    "typedef int T; enum e { T };",
    "typedef int T; enum T { X }; enum T t;",
    "typedef int T; void f(void) { enum { T }; T; }",
    "enum e { A }; enum e f(enum e x) { return x; }",
    "const enum e { A } ce;",
    # --- initializers -----------------------------------------------------
    "int a = 1;",
    "int a = (1, 2);",
    "int a = 1, 2;",
    "int a[] = { 1, 2, 3 };",
    "int a[] = { 1, 2, 3, };",
    "int a[] = { };",
    "int a[] = { , };",
    "int a[] = { 1,, 2 };",
    "int a[] = { 1 2 };",
    "int a[] = { 1, 2 ;",
    "int a[2][2] = { { 1, 2 }, { 3, 4 } };",
    "int a[2][2] = { { 1, 2, }, { 3, 4, }, };",
    "int a[5] = { [0] = 1, [2] = 3, [4] = 5 };",
    "int a[5] = { [0] 1 };",
    "int a[5] = { [0 = 1 };",
    "int a[5] = { [] = 1 };",
    "int a[2][2] = { [0][1] = 1, [1][0] = 2 };",
    "struct s x = { .a = 1, .b = { 2, 3 }, .c.d = 4, .e[1] = 5 };",
    "struct s x = { .a = 1, 2, .c = 3, };",
    "struct s x = { . = 1 };",
    "struct s x = { .a 1 };",
    "struct s x = { .3 = 1 };",
    "typedef int T; struct s x = { .T = 1 };",
    "struct s x = { [1].a = 1, [2].b[3] = 4 };",
    "struct s x = { { { { 1 } } } };",
    "char s[] = \"abc\"; char *t = \"a\" \"b\"; char u[] = { 'a', 'b', 0 };",
    "int *p = &x, **q = &p, r = *p;",
    "int (*fp)(int) = f, (*fa[2])(int) = { f, g };",
    "int a = { 1 };",
    "int a = { { 1 } };",
    "int a = {1}, b = {2};",
    "int a = b = c;",
    "int a = b ? c : d;",
    "int a = sizeof(int[3]);",
    "int a = (int){ 1 };",
    "struct s x = (struct s){ .a = 1 };",
    "void f(void) { int a = 1, b = a; static int c = 3; int d[] = { a, b }; }",
    "void f(void) { for (int i = 0, j = 1; i < j; i++) ; }",
    "void f(void) { for (struct { int a; } s = { 0 }; ; ) ; }",
    # --- type names (casts, sizeof, alignof, compound literals, offsetof) -
    "int a = sizeof(int);",
    "int a = sizeof(int *);",
    "int a = sizeof(int (*)[3]);",
    "int a = sizeof(int (*)(void));",
    "int a = sizeof(int (*(*)(int))[2]);",
    "int a = sizeof(struct s);",
    "int a = sizeof(struct { int a; });",
    "int a = sizeof(enum { Q });",
    "int a = sizeof(const int);",
    "int a = sizeof(int const * const);",
    "int a = sizeof(unsigned long long);",
    "int a = sizeof(int[]);",
    "int a = sizeof(int[3][4]);",
    "int a = sizeof(int[*]);",
    "int a = sizeof(int[static 3]);",
    "int a = sizeof(int ());",
    "int a = sizeof(int (int, char));",
    "int a = sizeof(int (*)());",
    "int a = sizeof(int *[3]);",
    "int a = sizeof(_Atomic(int));",
    "int a = sizeof(_Atomic int);",
    "int a = sizeof(_Atomic(int) *);",
    "int a = sizeof(_Alignas(8) int);",
    "int a = sizeof(_Alignas(8));",
    "int a = sizeof(const);",
    "int a = sizeof(static int);",
    "int a = sizeof(typedef int);",
    "int a = sizeof(int x);",
    "int a = sizeof(int;",
    "int a = sizeof(int int2);",
    "int a = sizeof(int struct s);",
    "int a = sizeof();",
    "int a = _Alignof(int);",
    "int a = _Alignof(int *[2]);",
    "int a = _Alignof(struct s);",
    "int a = (int)1.5;",
    "int a = (int *)0 == (void *)0;",
    "int a = (int (*)(int))f;",
    "int a = (const volatile unsigned char)x;",
    "int a = (struct s *)p != 0;",
    "typedef int T; int a = (T)1; int b = sizeof(T); int c = sizeof(T *); int d = (T *)0 == 0;",
    "typedef int T; int a = sizeof(T[3]); int b = sizeof(T (*)(T));",
    "typedef int T; int a = sizeof(const T); int b = sizeof(unsigned T);",
    "typedef int T; int a = sizeof(T T);",
    "typedef int T; void f(void) { int T = 1; int a = (T)+1; int b = sizeof(T); }",
    "int a = __builtin_offsetof(struct s, a);",
    "int a = __builtin_offsetof(struct s, a.b[1].c);",
    "typedef struct s S; int a = __builtin_offsetof(S, a);",
    "int a = (int[]){ 1, 2, 3 }[0];",
    "int *p = (int[2]){ 1, 2 };",
    "int a = ((struct s){ .a = 1 }).a;",
    "_Static_assert(sizeof(int) == 4, \"int\");",
    "_Static_assert(sizeof(int (*)[2]) > 0);",
    "_Static_assert(1, \"a\" \"b\");",
    "_Static_assert();",
    "_Static_assert(1, 2);",
    "void f(void) { _Static_assert(1, \"x\"); }",
    # --- scoping of typedef names / identifiers ---------------------------
    "typedef int T; int f(void) { T x; { typedef char T; T y; } T z; return 0; }",
    "typedef int T; int f(T T) { return T; } T g;",
    "typedef int T; int f(int T) { return T * 2; } T g;",
    "typedef int T; int f(int a) { T *b; int T; T * a; return 0; }",
    "typedef int T; void f(void) { for (int T = 0; T < 3; T++) ; T x; }",
    "typedef int T; int f(int T, int a[T]);",
    "typedef int T; int f(int (*T)(void), T x);",
    "typedef int T; int f(int T), g(T);",
    "typedef int T; int f(int T) ; T after;",
    "typedef int T; int f(int T, ...) { return T; }",
    "typedef int T; struct s { int T; }; T after;",
    "typedef int T; void f(void) { struct s { T T; } x; T y; }",
    "typedef int T; void f(void) { extern int T; T = 1; }",
    "typedef int T; void f(void) { static T T; }",
    "typedef int T, U; void f(void) { T U; U = 1; } U u;",
    "typedef int T; T *f(T *T) { return T; }",
    "typedef int T; int x = sizeof(T), T;",
    "typedef int T; int T, y = T;",
    # --- pragmas at file scope / in declarations ---------------------------
    "#pragma once\nint a;",
    "_Pragma(\"once\") int a;",
    "int a;\n#pragma foo bar\nint b;",
    "#pragma\nint a;",
    "# 1 \"x.c\"\nint a;\n# 10 \"y.h\"\nint b;\n",
    "#line 5\nint a[;",
    "#define X 1\nint a;",
    "#include <x.h>",
    # --- misc error cases --------------------------------------------------
    "int a",
    "int a = 1",
    "int f(void) {",
    "int f(void) { return 0; ",
    "int f(void) }",
    "int (a;",
    "int a);",
    "int (*a;",
    "int *(a;",
    "int a[3] = ;",
    "int a = { ;",
    "int a = };",
    "struct s { int a; } = { 1 };",
    "int f(int a, int a2) = 3;",
    "int f(void) = 0;",
    "int @;",
    "int a $ b;",
    "int a = 'ab",
    "int a = \"abc",
    "long long long x;",
    "short long x;",
    "void f(void) { int; }",
    "void f(void) { struct s; union u; enum e; }",
    "void f(void) { int a, ; }",
    "void f(void) { int (*)(int); }",
    "void f(void) { typedef int L; L l; } L outside;",
    "void f(void) { typedef int L; L l; } int L;",
]


EXTRA = [
    # --- pointer chains (qualifier runs, coordinates of every star) --------
    "int *\n*\n*p3;",
    "int * const\n* volatile restrict\n* _Atomic q3;",
    "int * const const * p;",
    "int * const @ p;",
    "int * $",
    "int *",
    "int * const",
    "int * * (* * pp)(int * *, char * const * restrict);",
    "int f(int * const * restrict [3], char * volatile * (*)(void));",
    "int a = sizeof(int * const * volatile);",
    "int a = (char * const * restrict * volatile *)0 == 0;",
    "typedef int T; T * const * f(T * restrict * T);",
    "struct s { int * const * a, ** volatile b : 2; };",
    # --- declarator name scan (parentheses, typedef names) -----------------
    "typedef int T; int f(int ((T)));",
    "typedef int T; int f(int ((x)));",
    "typedef int T; int f(int (*(T)));",
    "typedef int T; int f(int (*(*T)(int))(T));",
    "typedef int T; int f(int (((*))));",
    "typedef int T; int f(int ((*)(T))[3]);",
    "typedef int T; int f(int (T)(T), int ((T))(T), int (*const T));",
    "typedef int T; int f(int (T;",
    "typedef int T; int f(int ((T);",
    "typedef int T; int f(int (x;",
    "typedef int T; int f(int (;",
    "typedef int T; int f(int (*;",
    "typedef int T; int f(int ((x)(int);",
    "typedef int T; int f(int * const (T));",
    "typedef int T; int f(int * const (* volatile T));",
    "typedef int T; T ((*g))(T (T), T ((u)));",
    "typedef int T; static T (h)(void) { return 0; }",
    "typedef int T; static (T);",
    "typedef int T; static (*T);",
    "typedef int T; static *(x), (y);",
    "static (*k)(void), *(m[2]);",
    "int ((f))(void) { return 0; }",
    "int (*(g)(void)) { return 0; }",
    "int ((h)(a, b)) int a; int b; { return 0; }",
    "int (x)(;",
    "int ((x);",
    "int (((x))",
    "int (x))",
    # --- designators ------------------------------------------------------
    "int a[3] = { [0] = 1, [1] = 2, };",
    "int a[3][3] = { [0][0] = 1, [1] [2] = 2 };",
    "struct s v = { .a.b.c = 1, .d[0].e[1][2] = 2 };",
    "struct s v = { .a = { .b = { [0] = 1 } } };",
    "struct s v = { [0 ... 2] = 1 };",
    "struct s v = { .a. = 1 };",
    "struct s v = { .a[ = 1 };",
    "struct s v = { .a[1 = 1 };",
    "struct s v = { .a[1] };",
    "struct s v = { .a[1]",
    "struct s v = { [1",
    "struct s v = { . ",
    "typedef int T; struct s v = { .T.T[T] = 1 };",
    "struct s v = { .a = 1, [2] = 3, 4, { 5 }, .b = { 6 } };",
    "void f(void) { struct s v = { .a = g(), [h()] = i }; }",
    # --- array declarators -------------------------------------------------
    "int f(int a[static\n3], int b[const\n*], int c[\n*]);",
    "int f(int [static const volatile 3], int [restrict const static 4]);",
    "int f(int a[static static 3]);",
    "int f(int a[const static static 3]);",
    "int f(int a[const const]);",
    "int f(int a[* 2]);",
    "int f(int a[const * 2]);",
    "int f(int a[*][*]);",
    "int f(int a[_Atomic 3], int b[_Atomic static 3], int c[static _Atomic 3]);",
    "int a[3][;",
    "int a[static;",
    "int a[const;",
    "int (*a[2])[3][4], (*(*b)[2])[3];",
    "int a = sizeof(int [2][3]), b = sizeof(int (*[2])[3]), c = sizeof(int [const 2]);",
    # --- struct / union / enum tags that are typedef names ------------------
    "typedef int T; struct T; union T; enum T;",
    "typedef int T; struct T { int x; } a; union T2 { int y; } b; enum T3 { Z } c;",
    "typedef int T; struct T *p; enum T e; union T u;",
    "struct { int x; } a, *b; union { int y; } c;",
    "struct s { int x; } ; union u { } ; struct { } z;",
    "struct 1;",
    "union ;",
    "struct s {",
    "struct {",
    "struct s { int x; ",
    "enum T { A = 1, B, } e; enum { C } ;",
    "enum e {",
    "enum {",
    "enum e { A, ",
    "enum e { A = 1 ",
    "enum { A, A };",
    "typedef int A; enum { A };",
]


def spec_orders():
    """Every ordering of a few declaration specifiers of different kinds."""
    import itertools

    out = []
    pools = [
        ["static", "const", "int", "inline"],
        ["_Alignas(8)", "unsigned", "volatile", "extern"],
        ["_Atomic(int)", "const", "_Thread_local", "_Noreturn"],
        ["T", "const", "static", "_Alignas(4)"],
        ["struct s", "volatile", "typedef", "_Atomic"],
        ["enum e { Q }", "register", "restrict", "inline"],
        ["long", "_Atomic", "long", "unsigned"],
        ["T", "T", "const", "int"],
    ]
    for pool in pools:
        for perm in itertools.permutations(pool):
            words = " ".join(perm)
            out.append("typedef int T; %s x1;" % words)
            out.append("typedef int T; void g(%s y1);" % words)
            out.append("typedef int T; struct w { %s m1; };" % words)
            out.append("typedef int T; int z1 = sizeof(%s);" % words)
    # de-duplicate, keep order
    seen = set()
    res = []
    for s in out:
        if s not in seen:
            seen.add(s)
            res.append(s)
    return res


def generated():
    out = []
    specs = [
        "int",
        "unsigned",
        "const char",
        "static long",
        "struct s",
        "struct { int m; }",
        "union u",
        "enum e",
        "enum { K%d }",
        "T",
        "const T",
        "_Atomic(int)",
        "_Alignas(4) int",
        "extern inline int",
        "",
        "static",
    ]
    declarators = [
        "%s",
        "*%s",
        "**const %s",
        "(%s)",
        "(*%s)",
        "%s[3]",
        "%s[]",
        "*%s[2][3]",
        "(*%s)[2]",
        "%s(void)",
        "%s()",
        "%s(int, char *)",
        "(*%s)(int x, ...)",
        "(*%s[4])(void)",
        "*(*%s(int))[5]",
        "%s:3",
        "",
        "*",
        "(*)(int)",
        "[3]",
    ]
    n = 0
    for spec in specs:
        for d in declarators:
            n += 1
            s = spec % n if "%d" in spec else spec
            name = "v%d" % n
            dd = d % name if "%s" in d else d
            pre = "typedef int T; "
            # file scope
            out.append("%s%s %s;" % (pre, s, dd))
            # struct member
            out.append("%sstruct w { %s %s; };" % (pre, s, dd))
            # parameter
            out.append("%svoid fn(%s %s);" % (pre, s, dd))
            # block scope
            out.append("%svoid fn(void) { %s %s; }" % (pre, s, dd))
            # type name
            out.append("%sint z = sizeof(%s %s);" % (pre, s, dd))
            # typedef
            out.append("%stypedef %s %s; " % (pre, s, dd))
            # function definition
            out.append("%s%s %s { }" % (pre, s, dd))
            # with initializer
            out.append("%s%s %s = { 0 };" % (pre, s, dd))
    return out


def main():
    for path in all_files():
        try:
            with open(path, encoding="latin-1") as f:
                text = f.read()
        except Exception as e:  # noqa: BLE001
            print("READEXC", path, type(e).__name__)
            continue
        digest("FILE " + path, text, path)
        digest("STRIPPED " + path, strip(text), path)
    for i, src in enumerate(HAND):
        digest("HAND %d: %r" % (i, src), src)
    for i, src in enumerate(EXTRA):
        digest("EXTRA %d: %r" % (i, src), src)
    for i, src in enumerate(spec_orders()):
        digest("ORDER %d: %r" % (i, src), src)
    for i, src in enumerate(generated()):
        digest("GEN %d: %r" % (i, src), src)


if __name__ == "__main__":
    main()
