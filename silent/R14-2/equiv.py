"""Behaviour digest for the expression productions of pycparser.c_parser.

Run as:  cd <repo root> && /venv/bin/python equiv.py > out.txt
Prints, for every input, the AST dump with coordinates and the regenerated C,
or the exception type and message.  Fully deterministic.
"""
import io
import itertools
import os
import sys

sys.path.insert(0, os.getcwd())
sys.setrecursionlimit(10000)

from pycparser import c_parser, c_generator  # noqa: E402


def digest(name, text, filename):
    print("=" * 70)
    print("INPUT", name)
    try:
        ast = c_parser.CParser().parse(text, filename)
    except Exception as e:  # noqa: BLE001
        print("PARSE-EXC", type(e).__name__, str(e))
        return
    buf = io.StringIO()
    ast.show(buf=buf, showcoord=True, attrnames=True, nodenames=True)
    print(buf.getvalue())
    try:
        print(c_generator.CGenerator().visit(ast))
    except Exception as e:  # noqa: BLE001
        print("GEN-EXC", type(e).__name__, str(e))


def c_files():
    for d in ("tests/c_files", "examples/c_files"):
        for root, _dirs, files in sorted(os.walk(d)):
            for fn in sorted(files):
                if fn.endswith((".c", ".h")):
                    yield os.path.join(root, fn)


PRELUDE = "typedef int T; typedef struct S { int m; int a[3]; struct S *next; } S;\n"

# Expressions placed in:  void f(void) { r = <E>; }
EXPRS = [
    # primary
    "x", "T", "(x)", "((x))", "(x, y)", "(x, y, z)", "()", "(", ")", "",
    "x y", "1 2", "int", "(int)", "(T)", "(T", "(x", "(x))",
    # integer constants and suffixes
    "0", "1", "42", "0x1F", "0X1f", "017", "0b101", "0B11", "1u", "1U", "1l",
    "1L", "1ul", "1UL", "1lu", "1LU", "1ll", "1LL", "1ull", "1ULL", "1llu",
    "1LLU", "1uu", "1lll", "1uul", "1ulul", "0x1ull", "0xull", "0xABCDEFull",
    "0b1u", "01l", "1lul", "1Lu", "1lL", "1uLL", "0xffL", "0xLL", "08", "1z",
    # float constants
    "1.0", "1.", ".5", "1e10", "1E-3", "1.0f", "1.0F", "1.0l", "1.0L", "1.f",
    ".5L", "1e3f", "0x1p3", "0x1.8p-2", "0x1p3f", "0x1p3L", "0x.8p1", "1.0ff",
    "1.0d", "1e", "0x1p",
    # char constants
    "'a'", "'\\n'", "'\\x41'", "'\\0'", "L'a'", "u'a'", "U'a'", "u8'a'",
    "'ab'", "'abcd'", "'ul'", "'LL'", "''", "'a", "'\\q'", "L'ab'",
    # string literals
    '"a"', '"a" "b"', '"a" "b" "c"', '""', '"" ""', 'L"a"', 'L"a" L"b"',
    'u"a"', 'U"a" U"b"', 'u8"a"', 'u8"a" u8"b"', 'L"a" u"b"', '"a" L"b"',
    'L"a" "b"', '"a\\n" "\\tb"', '"a', '"a" 1', '"a"[0]', '"a" "b"[1]',
    'L"a"[0]', '"\\q"', 'u8"a" "b"', 'L"x" u8"y" U"z"',
    # postfix
    "x[1]", "x[1][2]", "x[1, 2]", "x[]", "x[1", "f()", "f(1)", "f(1, 2)",
    "f(1, 2, 3)", "f((1, 2))", "f(,)", "f(1,)", "f(1", "f(x = 1, y = 2)",
    "f()()", "f(g(h()))", "s.m", "s->m", "s.T", "s->T", "s.m.m", "s->next->m",
    "s.1", "s.", "s->", "s.(m)", "s->*m", "x++", "x--", "x++ ++", "x++--",
    "x[1]++", "f()--", "s.m++", "s->a[1]++", "x++[1]", "x.m[1](2)->n++",
    # compound literals
    "(int){1}", "(int){1,}", "(int){1, 2}", "(T){1}", "(S){1, {1, 2, 3}, 0}",
    "(S){.m = 1}", "(S){.m = 1, .a[0] = 2}", "(int[]){1, 2}", "(int[2]){1, 2}",
    "(S){1}.m", "(int[]){1, 2}[0]", "&(S){1}", "(S *){0}", "(int){}", "(int){",
    "(int){1", "(int){1}++", "((int){1})", "(int){(int){1}}",
    "(S){ [0] = 1 }", "(int){1} + (int){2}", "sizeof (int){1}",
    "sizeof (int){1}.m", "sizeof (S){1}.m + 1", "(T)(T){1}", "(int)(int){1}",
    "(struct S){1}", "(struct S *)p", "(const int){1}", "(int (*)(void)){0}",
    # unary
    "++x", "--x", "++ ++x", "++--x", "&x", "*x", "+x", "-x", "~x", "!x",
    "- -x", "-+x", "!~x", "&*x", "**x", "*&*x", "-x++", "++x++", "++x[1]",
    "&s.m", "*s->next", "!f()", "-(T)x", "-(x)", "++", "-", "!", "&", "++1",
    "sizeof x", "sizeof(x)", "sizeof(int)", "sizeof(T)", "sizeof(T*)",
    "sizeof sizeof x", "sizeof -x", "sizeof(x) + 1", "sizeof(int) + 1",
    "sizeof x++", "sizeof (x)++", "sizeof(int)++", "sizeof (T)x", "sizeof",
    "sizeof(", "sizeof(int", "sizeof int", "sizeof(x)[1]", "sizeof(struct S)",
    "sizeof(int[3])", "sizeof(int(*)[3])", "sizeof ++x", "sizeof &x",
    "sizeof(T){1}", "sizeof (x, y)", "sizeof *p", "sizeof(S) * 2",
    "_Alignof(int)", "_Alignof(T)", "_Alignof(T*)", "_Alignof(struct S)",
    "_Alignof(x)", "_Alignof int", "_Alignof(int", "_Alignof", "_Alignof()",
    "_Alignof(int) + 1", "-_Alignof(int)",
    # casts
    "(int)x", "(T)x", "(T)(x)", "(T)-x", "(T)+x", "(T)*x", "(T)&x", "(T)~x",
    "(T)!x", "(T)++x", "(T)x++", "(T)(T)x", "(int)(long)(char)x", "(x)-y",
    "(x)(y)", "(T)(y)(z)", "(T*)x", "(const T*)x", "(void)0", "(void)f()",
    "(int)", "(int)(", "(int))", "(T)sizeof x", "(T)sizeof(T)", "(T)x.m",
    "(T)x[1]", "(T)1 + 2", "(T)(1 + 2)", "(unsigned long long)1",
    "(int(*)(int))f", "(S)s", "(x)++", "(T)'a'", '(char*)"s"',
    # binary: every operator
    "a || b", "a && b", "a | b", "a ^ b", "a & b", "a == b", "a != b",
    "a > b", "a >= b", "a < b", "a <= b", "a >> b", "a << b", "a + b",
    "a - b", "a * b", "a / b", "a % b",
    # precedence / associativity
    "a + b * c", "a * b + c", "a - b - c", "a / b / c", "a - b + c",
    "a + b - c * d / e % f", "a << b + c", "a + b << c", "a < b == c",
    "a == b < c", "a & b == c", "a == b & c", "a ^ b & c", "a | b ^ c",
    "a && b | c", "a || b && c", "a && b || c", "a || b || c",
    "a && b && c", "a * b * c * d", "a + b + c + d + e",
    "a || b && c | d ^ e & f == g < h << i + j * k",
    "a * b + c << d < e == f & g ^ h | i && j || k",
    "a * b + c * d + e * f", "a + b * c + d * e + f", "a < b < c",
    "a * (b + c)", "(a + b) * c", "a + (b + c)", "(a - b) - c", "a - (b - c)",
    "a * -b", "a - -b", "a - --b", "a+++b", "a---b", "a & &b", "a * *b",
    "a + (T)b * c", "(T)a + b", "(T)a * (T)b", "a * sizeof b", "a + sizeof(T) * b",
    "a +", "a *", "+ * ", "a + + ", "a + )", "a ? : b", "a + * b",
    "a % b * c / d", "a >> b << c >> d", "a != b == c != d",
    "a >= b <= c > d < e", "-a * -b + -c", "!a && !b || !c",
    "a.m + b->m * c[1] - f(d)", "a++ + ++b", "a-- - --b",
    # conditional
    "a ? b : c", "a ? b : c ? d : e", "a ? b ? c : d : e",
    "a ? b, c : d", "a ? b : c, d", "a || b ? c : d", "a ? b : c || d",
    "a ? b = 1 : c", "a ? b : c = 1", "(a ? b : c) = 1", "a ? b", "a ? b :",
    "a ? : c", "a ?", "a ? (b, c) : d ? e : f ? g : h", "a + b ? c + d : e + f",
    "(T)a ? (T)b : (T)c", "a ? b : c ? d", "a ? b ? c : d",
    # assignment (as expression, nested in r = ...)
    "a = b", "a = b = c", "a += b", "a -= b", "a *= b", "a /= b", "a %= b",
    "a <<= b", "a >>= b", "a &= b", "a |= b", "a ^= b", "a = b += c -= d",
    "a = b ? c : d", "a ? b : c = d", "a + b = c", "a = ", "= a", "a == = b",
    "*a = b", "a[1] = b", "s.m = b", "(a) = b", "(T)a = b", "a = (b = c)",
    "a = b, c = d", "(a = b, c = d)", "-a = b", "a++ = b", "f() = 1",
    "a = {1}", "a = (T){1}", "a =+ b", "a = = b",
    # comma / expression lists
    "a, b", "a, b, c", "(a, b), c", "a, (b, c)", "a,", ", a", "a,, b",
    "f(a), g(b)", "a = 1, b = 2, c = 3", "a ? b : c, d ? e : f",
    # statement expressions
    "({ 1; })", "({ int t = 1; t; })", "({ })", "({ 1; }) + 1", "({ 1; }",
    "({ x = ({ 2; }); })", "f(({ 1; }))", "1 + ({ 2; })", "({ 1; }).m",
    # offsetof
    "offsetof(S, m)", "offsetof(struct S, m)", "offsetof(S, a[1])",
    "offsetof(S, next.m)", "offsetof(S, a[1].m[2])", "offsetof(S, T)",
    "offsetof(S, m.T)", "offsetof(S)", "offsetof(S, )", "offsetof(S, 1)",
    "offsetof(S, m", "offsetof S", "offsetof(x, m)", "offsetof(S, m) + 1",
    "offsetof(S, a[i + 1])", "offsetof(S, m.)", "offsetof(S, a[])",
    "offsetof(S, m)[0]", "offsetof(S, m)(1)",
    # deep nesting
    "(" * 30 + "x" + ")" * 30,
    "-" * 0 + "!" * 25 + "x",
    "(T)" * 20 + "x",
    " + ".join("a%d" % i for i in range(40)),
    " * ".join("(a%d + b%d)" % (i, i) for i in range(15)),
    "x" + "[1]" * 20,
    "f(" * 15 + "1" + ")" * 15,
    " ? ".join("c%d" % i for i in range(10)) + " : e" * 9,
    "a = " * 15 + "b",
    "(int){" * 8 + "1" + "}" * 8,
    "sizeof " * 10 + "x",
]

# Contexts that reach the expression productions through other entry points.
CONTEXTS = [
    "int g = %s;",
    "int g[%s];",
    "enum E { A = %s };",
    "struct B { int b : %s; };",
    "_Static_assert(%s, \"m\");",
    "void f(void) { if (%s) ; }",
    "void f(void) { while (%s) ; }",
    "void f(void) { for (%s; %s; %s) ; }",
    "void f(void) { return %s; }",
    "void f(void) { switch (%s) { case %s: break; } }",
    "int g[] = { [%s] = %s };",
    "void f(void) { %s; }",
    "_Alignas(%s) int g;",
    "void f(int a[static %s]);",
]
CONTEXT_EXPRS = [
    "1", "x", "1 + 2 * 3", "a ? b : c", "a = b", "a, b", "(T)x", "sizeof(T)",
    "sizeof x", "(int){1}", '"s" "t"', "'c'", "1ul", "1.0f", "f(1, 2)",
    "x++", "-x", "", "1 +", "offsetof(S, m)", "({ 1; })", "a || b && c",
    "T", "(T)", "x[1].m->n", "_Alignof(T)", "1uu",
]

WHOLE = [
    # multi-line coordinates
    "void f(void) {\n  r = a +\n      b *\n        c;\n}\n",
    "void f(void) {\n  r = (T)\n   x;\n  r = sizeof\n (T);\n}\n",
    "void f(void) {\n  r = a ?\n b\n :\n c;\n}\n",
    "void f(void) {\n  r = f(\n 1,\n 2\n);\n}\n",
    "void f(void) {\n  r = \"a\"\n \"b\"\n   \"c\";\n}\n",
    "void f(void) {\n  r = L\"a\"\n L\"b\";\n}\n",
    "void f(void) {\n  r = (S)\n {\n 1 }\n .m;\n}\n",
    "void f(void) {\n  r = offsetof(\n S,\n m);\n}\n",
    # #line changes in the middle of expressions
    "void f(void) {\n  r = a +\n#line 100 \"other.c\"\n b;\n}\n",
    "void f(void) {\n  r = (T)\n#line 7 \"o.h\"\n{ 1 };\n}\n",
    "void f(void) {\n  r = sizeof(T)\n#line 7 \"o.h\"\n{ 1 };\n}\n",
    "void f(void) {\n  r = sizeof\n# 9 \"p.h\"\n(T);\n}\n",
    "void f(void) {\n  r = (\n# 9 \"p.h\"\nT) x;\n}\n",
    "void f(void) {\n  r = \"a\"\n#line 5 \"q.c\"\n \"b\";\n}\n",
    "void f(void) {\n  r = x\n#line 5 \"q.c\"\n ++;\n}\n",
    "void f(void) {\n  r = a ,\n#line 5 \"q.c\"\n b;\n}\n",
    "void f(void) {\n  r = a =\n#line 5 \"q.c\"\n b;\n}\n",
    "void f(void) {\n  r = (\n#line 5 \"q.c\"\n {1;});\n}\n",
    # pragmas near expressions
    "void f(void) {\n  r = 1;\n#pragma omp\n  r = 2;\n}\n",
    "void f(void) { _Pragma(\"x\") r = 1; }",
    "_Pragma(\"a\" \"b\")",
    "_Pragma(1)",
    "_Static_assert(1, \"a\" \"b\");",
    "_Static_assert(1, L\"a\");",
    "_Static_assert(1);",
    "_Static_assert(1 2);",
    # typedef-name shadowing affecting cast/expression disambiguation
    "typedef int T; void f(void) { int T; r = (T) + 1; }",
    "typedef int T; void f(void) { r = (T) + 1; }",
    "typedef int T; void f(int T) { r = (T) * x; }",
    "typedef int T; void f(void) { r = (T) * x; }",
    "typedef int T; void f(void) { r = sizeof(T) * x; { int T; r = sizeof(T) * x; } }",
    "typedef int T; void f(void) { r = T; }",
    "typedef int T; void f(void) { r = x.T + y->T; }",
    "void f(void) { r = (U)x; }",
    "void f(void) { r = (U){1}; }",
    # truncated input
    "void f(void) { r = a +",
    "void f(void) { r = (T",
    "void f(void) { r = f(",
    "void f(void) { r = x[",
    "void f(void) { r = x.",
    "void f(void) { r = sizeof",
    "void f(void) { r = a ?",
    "void f(void) { r = a ? b :",
    "void f(void) { r = (int){",
    "void f(void) { r = offsetof(",
    "void f(void) { r = \"a\"",
    "int g = ",
    "int g = 1 +",
    "int g = (",
]


def main():
    for path in c_files():
        with open(path) as f:
            text = f.read()
        digest("FILE " + path, text, path)

    for i, e in enumerate(EXPRS):
        src = PRELUDE + "void f(void) {\n  r = %s;\n}\n" % e
        digest("EXPR %d: %r" % (i, e[:60]), src, "e%d.c" % i)

    n = 0
    for ctx in CONTEXTS:
        k = ctx.count("%s")
        for j, e in enumerate(CONTEXT_EXPRS):
            if k == 1:
                args = (e,)
            else:
                args = tuple(
                    CONTEXT_EXPRS[(j + d * 7) % len(CONTEXT_EXPRS)] for d in range(k)
                )
            src = PRELUDE + ctx % args + "\n"
            digest("CTX %d: %r" % (n, (ctx % args)[:70]), src, "c%d.c" % n)
            n += 1

    # Systematic operator pairs: a OP1 b OP2 c for all binary operators.
    ops = ["||", "&&", "|", "^", "&", "==", "!=", ">", ">=", "<", "<=", ">>",
           "<<", "+", "-", "*", "/", "%"]
    for i, (o1, o2) in enumerate(itertools.product(ops, ops)):
        src = "void f(void) { r = a %s b %s c %s d; }" % (o1, o2, o1)
        digest("PAIR %d: %s %s" % (i, o1, o2), src, "p.c")

    # Unary prefix x postfix combinations.
    pre = ["", "++", "--", "&", "*", "+", "-", "~", "!", "sizeof ", "(T)",
           "sizeof(T)", "_Alignof(T)"]
    post = ["", "++", "--", "[1]", "()", ".m", "->m", "{1}"]
    for i, (p, q) in enumerate(itertools.product(pre, post)):
        src = PRELUDE + "void f(void) { r = %sx%s; r = %s(x)%s; }" % (p, q, p, q)
        digest("UNPOST %d: %r %r" % (i, p, q), src, "u.c")

    for i, src in enumerate(WHOLE):
        digest("WHOLE %d" % i, src, "w%d.c" % i)


if __name__ == "__main__":
    main()
