"""Behaviour digest for pycparser (focus: c_generator).

Run as:  cd <repo root> && /venv/bin/python equiv.py > out.txt
Prints, for every input, the AST dump with coordinates and the generated C
(both parenthesisation modes, plus a re-parse round trip), or the exception
type and message.  Fully deterministic.
"""
import io
import os
import sys

sys.path.insert(0, os.getcwd())

from pycparser import c_ast, c_generator, c_parser, parse_file  # noqa: E402


def describe_exc(e):
    return f"EXC {type(e).__name__}: {e}"


def gen_text(node, reduce_parentheses):
    g = c_generator.CGenerator(reduce_parentheses=reduce_parentheses)
    try:
        out = g.visit(node)
        return f"{out!r}\n--text--\n{out}\n--indent_level={g.indent_level!r}"
    except Exception as e:  # noqa: BLE001
        return describe_exc(e) + f"\n--indent_level={g.indent_level!r}"


def show(ast):
    buf = io.StringIO()
    ast.show(buf=buf, showcoord=True, attrnames=True, nodenames=True)
    return buf.getvalue()


def roundtrip(text, name):
    """generated text -> parse -> generate again (both modes)."""
    try:
        ast2 = c_parser.CParser().parse(text, filename=name + "#rt")
    except Exception as e:  # noqa: BLE001
        return "RT-PARSE " + describe_exc(e)
    res = []
    for rp in (False, True):
        g = c_generator.CGenerator(reduce_parentheses=rp)
        try:
            res.append(f"RT[{rp}] {g.visit(ast2)!r}")
        except Exception as e:  # noqa: BLE001
            res.append(f"RT[{rp}] " + describe_exc(e))
    return "\n".join(res)


def digest_source(name, text=None, path=None):
    print("=" * 70)
    print("INPUT", name)
    try:
        if path is not None:
            ast = parse_file(path, use_cpp=False)
        else:
            ast = c_parser.CParser().parse(text, filename=name)
    except Exception as e:  # noqa: BLE001
        print("PARSE", describe_exc(e))
        return
    print("--ast--")
    print(show(ast))
    for rp in (False, True):
        print(f"--gen reduce_parentheses={rp}--")
        print(gen_text(ast, rp))
    g = c_generator.CGenerator()
    try:
        out = g.visit(ast)
    except Exception:  # noqa: BLE001
        out = None
    if out is not None:
        print("--roundtrip--")
        print(roundtrip(out, name))
    # Statement level / per-node generation with a single shared generator, to
    # observe the indentation state carried between calls.
    g = c_generator.CGenerator(reduce_parentheses=True)
    for i, ext in enumerate(ast.ext):
        try:
            print(f"--ext[{i}] {type(ext).__name__}: {g.visit(ext)!r} lvl={g.indent_level}")
        except Exception as e:  # noqa: BLE001
            print(f"--ext[{i}] " + describe_exc(e))
        if isinstance(ext, c_ast.FuncDef) and ext.body.block_items:
            for j, st in enumerate(ext.body.block_items):
                for add in (False, True):
                    try:
                        print(
                            f"  stmt[{j}] add_indent={add}: "
                            f"{g._generate_stmt(st, add_indent=add)!r} lvl={g.indent_level}"
                        )
                    except Exception as e:  # noqa: BLE001
                        print(f"  stmt[{j}] " + describe_exc(e))


# ---------------------------------------------------------------------------
# 1. files
# ---------------------------------------------------------------------------
def c_files():
    res = []
    for d in ("tests/c_files", "examples/c_files"):
        for root, dirs, files in os.walk(d):
            dirs.sort()
            for f in sorted(files):
                if f.endswith((".c", ".h")):
                    res.append(os.path.join(root, f).replace(os.sep, "/"))
    return res


# ---------------------------------------------------------------------------
# 2. snippets
# ---------------------------------------------------------------------------
EXPRS = [
    "a", "1", "1.5f", "'c'", '"str"', '"a" "b"', "L'x'", 'u8"s"',
    "a + b", "a + b * c", "(a + b) * c", "a * (b + c)", "a - (b - c)",
    "(a - b) - c", "a / b / c", "a / (b / c)", "a % b * c", "a << b >> c",
    "a << (b + c)", "(a << b) + c", "a < b == c > d", "a & b | c ^ d",
    "a & (b | c)", "(a & b) | c", "a && b || c && d", "(a || b) && (c || d)",
    "a || (b || c)", "a == b != c", "a <= b >= c", "a ^ b ^ c",
    "-a", "+a", "!a", "~a", "*p", "&a", "-(-a)", "- -a", "!(a && b)",
    "-(a + b)", "*(p + 1)", "&*p", "**pp", "&a[1]", "*f(x)", "-1", "~0u",
    "a++", "a--", "++a", "--a", "(*p)++", "*p++", "(a + b)++", "++*p",
    "a++ + ++b", "a-- - --b",
    "sizeof a", "sizeof(a)", "sizeof(int)", "sizeof(int *)", "sizeof a + b",
    "sizeof(struct s)", "sizeof(int[3])", "sizeof(void (*)(int))",
    "_Alignof(int)", "_Alignof(struct s *)",
    "a[1]", "a[i][j]", "(a + b)[1]", "(*p)[2]", "f()[1]", "a.b[2]", "(&a)[0]",
    "a.b", "a->b", "a.b.c", "a->b->c", "(*a).b", "(a + b)->c", "f().x",
    "a[1].b", "(&a)->b", "(a = b).c", "(a ? b : c).d",
    "f()", "f(a)", "f(a, b)", "f(a, (b, c))", "(*f)(a)", "f(a)(b)",
    "a.f(x)", "p->f(x, y)", "(a ? f : g)(x)", "f((a, b))", "f(g(h(1)))",
    "(int) a", "(int) a + b", "(int) (a + b)", "(char *) p", "(int) -a",
    "(int) (long) a", "(void (*)(int)) p", "(struct s *) p", "(const int) a",
    "(int * const) p", "(int (*)[3]) p", "(unsigned long long) 1",
    "a ? b : c", "a ? b : c ? d : e", "(a ? b : c) ? d : e", "a ? (b, c) : d",
    "a + b ? c * d : e - f", "a ? b = 1 : c", "x = a ? b : c",
    "a = b", "a = b = c", "a += b", "a -= b * c", "a <<= 2", "a >>= 1",
    "a &= b", "a |= b", "a ^= b", "a %= b", "a /= b", "a *= b",
    "a = (b, c)", "a = (b = c)", "*p = 1", "a[1] = 2", "s.x = 3", "p->y = 4",
    "(a, b)", "a, b", "a, b, c", "(a, b), c", "a, (b, c)", "((a))",
    "(struct s){1, 2}", "(int[]){1, 2, 3}", "(struct s){.a = 1, .b = {2, 3}}",
    "(int[3]){[0] = 1, [2] = 3}", "(struct s){.a[1].b = 2}",
    "1.x", "(1).x", "1 .x", "(1)->x", "1[a]", '"abc"[1]', "'a' + 1",
    "a * b + c * d", "a * (b * c)", "(a * b) * c", "a + (b + c) + d",
    "a - (b + c)", "a - b + c", "a / (b * c)", "a && (b && c)",
    "a == (b == c)", "a < (b < c)", "(a < b) < c", "a << (b << c)",
    "a | b & c", "(a | b) & c", "a ^ (b & c)", "(a ^ b) & c",
    "a + b << c", "a + (b << c)", "a < b + c", "(a < b) + c",
    "a || b && c", "(a || b) && c", "a && b == c", "(a && b) == c",
    "!a == b", "!(a == b)", "-a * b", "-(a * b)", "(int) a * b",
    "sizeof(a) * b", "sizeof(a * b)", "a * sizeof b", "a ? b : c + d",
    "(a ? b : c) + d", "a + (b ? c : d)", "a = b + c", "(a = b) + c",
    "a + (b = c)", "f(a = b)", "f(a ? b : c)", "f(a + b, c * d)",
    "a[b + c]", "a[b = c]", "a[b, c]", "a[b ? c : d]",
    "__func__", "0x1F", "017", "0b101", "1e10", "1.0L", "10ULL", "'\\n'",
]

DECLS = [
    "int a;", "int a, b;", "int a = 1, b = 2;", "int *a, **b, c[3];",
    "const int a;", "int const a;", "volatile int *p;", "int * const p;",
    "int * const volatile p;", "const int * const * volatile pp;",
    "int * restrict p;", "static int a;", "extern int a;", "register int a;",
    "static const unsigned long long a = 5;", "inline int f(void);",
    "static inline int f(int a, char *b);", "_Noreturn void f(void);",
    "_Thread_local int a;", "_Alignas(8) int a;", "_Alignas(int) char c;",
    "_Alignas(8) _Alignas(16) int a;", "static _Alignas(8) int a;",
    "int a[3];", "int a[];", "int a[3][4];", "int a[N + 1];",
    "int *a[3];", "int (*a)[3];", "int (*a[2])[3];", "int *(*a)[3];",
    "int (**a)[3];", "int (*(*a)[2])[3];",
    "int f();", "int f(void);", "int f(int);", "int f(int a, ...);",
    "int *f(int a);", "int (*f)(int a);", "int (*f(int a))(char);",
    "int (*(*f)(int))(char);", "int (*f[3])(int);", "int (*(*f)[3])(int);",
    "void (*signal(int sig, void (*func)(int)))(int);",
    "int f(int a[static 3]);", "int f(int a[const]);",
    "int f(int a[const static 3]);", "int f(int a[restrict volatile 5]);",
    "int f(int a[*]);", "int f(int (*)(int));", "int f(int *, char **);",
    "int f(int (*g)(void), int h(char));", "int f(const int * const);",
    "int f(int [3]);", "int f(int (*)[3]);", "int f(char *[]);",
    "char * const * f(void);", "int * const f(void);",
    "int (* const f)(void);", "int (* const * volatile f)(void);",
    "int * const * volatile a[2];", "int (* const a)[3];",
    "struct s;", "struct s a;", "struct s {int a;};", "struct s {int a; char b;} x;",
    "struct {int a;} x;", "struct s {int a : 3; unsigned b : 1; int : 0;};",
    "struct s {struct t {int a;} b; union {int c; float d;};};",
    "struct s {int a[3]; int (*f)(int); struct s *next;};",
    "struct s {};", "union u;", "union u {int a; float b;};", "union u {int a;} x, *y;",
    "struct s {_Static_assert(1, \"m\"); int a;};",
    "struct s {int a, b; char *c, d[2];};",
    "struct s {const int a; volatile char * const b;};",
    "struct s {_Alignas(8) int a;};",
    "enum e;", "enum e a;", "enum e {A};", "enum e {A, B, C};",
    "enum e {A = 1, B = A + 1, C = (1 << 3)};", "enum {A, B} x;",
    "enum e {A, B,};", "enum e {A = sizeof(int)} x = A;",
    "typedef int T;", "typedef int *T;", "typedef int T[3];",
    "typedef int (*T)(int, char);", "typedef struct s {int a;} T;",
    "typedef struct s T; T *p;", "typedef const int T; T a;",
    "typedef int T, *PT;", "typedef enum {A, B} T;", "typedef int T; T f(T a);",
    "typedef int T; int f(T);", "typedef int T; void f(void) {T T;}",
    "typedef int T; struct s {T T;};", "typedef unsigned long size_t; size_t n = sizeof(size_t);",
    "extern typedef int T;",
    "int a = 1;", "int a = 1 + 2 * 3;", "int a[] = {1, 2, 3};",
    "int a[2][2] = {{1, 2}, {3, 4}};", "int a[] = {[0] = 1, [2] = 3};",
    "struct s a = {.x = 1, .y = {2, 3}};", "struct s a = {.x.y = 1, .z[2] = 3};",
    "struct s a = {.a[0].b = 1};", "int a[] = {1, 2, 3,};", "int a = {1};",
    "struct s a = {};", "char s[] = \"abc\";", "char *s = \"a\" \"b\";",
    "int a = (1, 2);", "int a = (int) 1.5;", "int *p = &a;", "int a = b ? c : d;",
    "int a = (b = c);", "int a = sizeof(int);", "int (*fp)(int) = f;",
    "struct s a = (struct s){1, 2};", "int *p = (int[]){1, 2};",
    "int a = f(1, 2), b = g();", "int a[3] = {0}, *p = a;",
    "_Static_assert(1, \"msg\");", "_Static_assert(sizeof(int) == 4, \"m\");",
    "_Static_assert(1);", "_Static_assert(a + b);",
    "#pragma once\nint a;", "#pragma\nint a;", "#pragma omp parallel for\nint a;",
    "_Pragma(\"once\") int a;", "int a; #pragma x", ";", "", "int a;;",
    "_Atomic int a;", "_Atomic(int) a;", "_Atomic(int *) p;", "int * _Atomic p;",
    "_Atomic(int) *p;", "_Atomic(int) f(void);",
    "int f(a, b) int a; char b; {return a;}", "int f(a) int a; {}",
    "f(a) {return a;}", "int f(void) {}", "static int f(int a) {return a + 1;}",
    "int *f(void) {return 0;}", "int (*f(void))(int) {return 0;}",
    "void f(void) {int a; {int b;} }", "long long int a;", "unsigned a;",
    "signed char c;", "long double d;", "_Bool b;", "_Complex double z;",
    "__int128 x;", "short int s; int long unsigned u;",
    "int a : 3;", "int f(int a = 1);", "int 3a;", "int a b;", "int (a;",
    "struct {int a} x;", "enum e {A B};", "int a[;", "int f(int,);", "x = 1;",
    "int a = ;", "typedef int T; T T;", "int f(void) {return}", "int a = {1, 2",
    "void f(void) {int a[] = {1, 2}; struct s b = {.a = 1};}",
    "void f(void) {for (;;) {}}", "int f(int), g(char), *h(void);",
    "void f(int a, int b[a]);", "int a[sizeof(int) * 2];",
    "const struct s * const p;", "const enum e x;", "volatile union u v;",
    "static struct s {int a;} x = {1};", "extern int a[], f(void);",
    "int (a);", "int (*(a));", "int ((f))(void);", "int (*(p))[3];",
]

STMTS = [
    ";", "a;", "a = 1;", "f();", "a++;", "(void) a;", "a, b;", "a ? b : c;",
    "a[1];", "a.b;", "1;", "-a;", "a + b;", "(struct s){1};", "sizeof a;",
    "return;", "return a;", "return a + b;", "return (a, b);", "return (a);",
    "return (struct s){1, 2};", "return a ? b : c;", "return a = b;",
    "break;", "continue;", "goto L;", "L: ;", "L: a = 1;", "L: M: a;",
    "L: {a;}", "L: if (a) b;", "L: for (;;) ;", "L: return;",
    "{}", "{;}", "{a; b;}", "{{}}", "{{a;} {b;}}", "{int a; a = 1;}",
    "{int a = 1, b; typedef int T; T c;}",
    "if (a) b;", "if (a) b; else c;", "if (a) {b;}", "if (a) {b;} else {c;}",
    "if (a) b; else if (c) d; else e;", "if (a) if (b) c; else d;",
    "if (a) {if (b) c;} else d;", "if (a) ; else ;", "if (a) {} else {}",
    "if (a = b) c;", "if ((a, b)) c;", "if (a) return; else break;",
    "if (a) for (;;) b; else while (c) d;", "if (a) L: b;", "if (a) {L: b;}",
    "if (a) {int x; x = 1;} else if (b) {int y;} else {int z;}",
    "while (a) b;", "while (a) {b;}", "while (a) ;", "while (a) {}",
    "while (a) while (b) c;", "while (a, b) c;", "while (a = f()) {g(a);}",
    "while (1) {if (a) break; else continue;}",
    "do a; while (b);", "do {a;} while (b);", "do ; while (b);", "do {} while (0);",
    "do do a; while (b); while (c);", "do {do {a;} while (b);} while (c);",
    "do if (a) b; else c; while (d);", "do a; while (b, c);",
    "for (;;) ;", "for (;;) {}", "for (i = 0; i < n; i++) a;",
    "for (i = 0; i < n; i++) {a;}", "for (int i = 0; i < n; i++) a;",
    "for (int i = 0, j = 1; i < j; i++, j--) {a;}", "for (i = 0, j = 0;;) ;",
    "for (; a;) ;", "for (;; a) ;", "for (a;;) ;", "for (int i;;) ;",
    "for (int *p = a, **q = &p; p; p++) ;", "for (struct s {int a;} x;;) ;",
    "for (;;) for (;;) {a;}", "for (;;) if (a) b; else c;",
    "for (i = (a, b); (c, d); (e, f)) ;", "for (typedef int T;;) ;",
    "for (static int i = 0;;) ;", "for (int a[2] = {1, 2};;) ;",
    "switch (a) {}", "switch (a) {case 1: b;}", "switch (a) {case 1: b; break; default: c;}",
    "switch (a) {case 1: case 2: b; default: ;}", "switch (a) {default: a; b; c;}",
    "switch (a) case 1: b;", "switch (a) default: ;", "switch (a) b;",
    "switch (a) {case 1: {b; c;} break; case 2: if (d) e; else f; break;}",
    "switch (a) {case 1 + 2: b; case 'c': d; case (3): e; case A ? B : C: f;}",
    "switch (a) {int x; case 1: x = 1; break;}",
    "switch (a) {case 1: switch (b) {case 2: c; break;} break; default: d;}",
    "switch (a) {case 1: L: b; goto L;}", "switch (a) {case 1: for (;;) {b;} while (c) d;}",
    "switch ((a, b)) {case 1: ;}", "switch (a) {case 1: int x; x = 2;}",
    "switch (a) {case 1: ; ; default: ; ;}", "switch (a) {case 1: return; default: return 1;}",
    "switch (a) {case 1: do b; while (c); break;}",
    "#pragma omp\n a;", "if (a)\n#pragma x\n b;", "{\n#pragma p\n}", "for (;;)\n#pragma y\n ;",
    "_Pragma(\"x\") a;", "if (a) _Pragma(\"y\") b;", "_Pragma(\"a\") _Pragma(\"b\") ;",
    "int a;", "int a = 1;", "int a, *b;", "struct s {int a;} x;", "struct s {int a;};",
    "enum e {A, B} x;", "enum {A = 1};", "union u {int a; struct {int b;} c;} x;",
    "typedef int T;", "typedef struct {int a;} T;", "static int a;", "extern int f(void);",
    "int a[] = {1, 2};", "struct s a = {.x = {1, 2}, .y = 3};", "int (*f)(int) = g;",
    "_Static_assert(1, \"m\");", "_Static_assert(1);",
    "struct s {struct t {enum e {A, B} x;} y;} z;",
    "struct s {union {int a; int b;}; enum {A} c;} x;",
    "if (a) {struct s {int a;} x;}", "while (a) {enum e {A = 1, B} x;}",
    "a = (b, c);", "f((a, b), c);", "a = b ? (c, d) : e;", "x = (struct s){.a = (1, 2)};",
    "a = sizeof(struct {int a;});", "a = (enum {A, B}) 1;", "p = (struct s {int a;} *) q;",
    "a = ({1;});", "return;;", "else a;", "if a b;", "while () a;", "for (;) ;",
    "do a while (b);", "case 1: a;", "default: a;", "switch () {}", "goto 1;",
    "if (a) else b;", "{", "a +;", "f(;", "a ? b;", "return a b;", "a = ;",
    "break", "L:", "(int) ;", "sizeof ;", "a..b;", "a->;", "a[;", "a[];",
]


def snippets():
    res = []
    for i, e in enumerate(EXPRS):
        ctx = i % 4
        if ctx == 0:
            src = f"void f(void) {{ x = {e}; }}"
        elif ctx == 1:
            src = f"void f(void) {{ {e}; }}"
        elif ctx == 2:
            src = f"int f(void) {{ return {e}; }}"
        else:
            src = f"void f(void) {{ if ({e}) g({e}); else h[{e}] = !({e}); }}"
        res.append((f"expr{i:03d}", src))
    # every expression also as an initializer (and arithmetic operand) at
    # file scope, multi-line so that coordinates vary
    for i, e in enumerate(EXPRS):
        res.append((f"init{i:03d}", f"int v =\n  {e};\nint w[] = {{ {e},\n {e} }};"))
    # binary operator matrix: every pair of operators in both nestings
    ops = ["||", "&&", "|", "^", "&", "==", "!=", ">", ">=", "<", "<=", ">>",
           "<<", "+", "-", "*", "/", "%"]
    for i, o1 in enumerate(ops):
        body = []
        for o2 in ops:
            body.append(f"x = (a {o1} b) {o2} c; y = a {o1} (b {o2} c); z = a {o1} b {o2} c;")
        res.append((f"binop{i:02d}", "void f(void) {\n" + "\n".join(body) + "\n}"))
    for i, d in enumerate(DECLS):
        res.append((f"decl{i:03d}", d))
    for i, s in enumerate(STMTS):
        res.append((f"stmt{i:03d}", f"void f(void)\n{{\n  {s}\n}}"))
        if i % 3 == 0:
            res.append((f"stmtn{i:03d}", f"void f(void) {{ while (w) {{ if (c) {{ {s} }} else {s} }} }}"))
    return res


# ---------------------------------------------------------------------------
# 3. hand-built ASTs (things the parser never produces, error cases)
# ---------------------------------------------------------------------------
def hand_built():
    A = c_ast
    I = A.ID
    C = lambda v: A.Constant("int", v)  # noqa: E731
    it = lambda *n: A.IdentifierType(list(n))  # noqa: E731
    td = lambda name, quals=None, t=None: A.TypeDecl(name, quals or [], None, t or it("int"))  # noqa: E731
    decl = lambda name, t, **kw: A.Decl(  # noqa: E731
        name, kw.get("quals", []), kw.get("align", []), kw.get("storage", []),
        kw.get("funcspec", []), t, kw.get("init"), kw.get("bitsize"))
    E = A.EmptyStatement
    cases = []
    add = lambda n, x: cases.append((n, x))  # noqa: E731

    add("none", None)
    add("binop-unknown-left", A.BinaryOp("**", A.BinaryOp("+", I("a"), I("b")), I("c")))
    add("binop-unknown-right", A.BinaryOp("+", I("a"), A.BinaryOp("**", I("b"), I("c"))))
    add("binop-unknown-simple", A.BinaryOp("**", I("a"), I("c")))
    add("binop-unknown-unary", A.BinaryOp("**", A.UnaryOp("-", I("a")), A.Cast(A.Typename(None, [], None, td(None)), I("c"))))
    add("binop-none-op", A.BinaryOp(None, I("a"), A.BinaryOp("+", I("a"), I("b"))))
    add("binop-none-child", A.BinaryOp("+", None, I("b")))
    add("binop-const-none", A.BinaryOp("+", C(None), I("b")))
    add("binop-nested-mixed", A.BinaryOp("-", A.BinaryOp("-", I("a"), A.BinaryOp("*", I("b"), I("c"))), A.BinaryOp("-", A.TernaryOp(I("p"), I("q"), I("r")), A.Assignment("=", I("x"), I("y")))))
    add("binop-exprlist", A.BinaryOp("+", A.ExprList([I("a"), I("b")]), A.InitList([I("c")])))
    add("binop-compound", A.BinaryOp("+", A.Compound([I("a")]), I("b")))
    add("ternary-none", A.TernaryOp(C(None), I("a"), I("b")))
    add("ternary-none2", A.TernaryOp(I("a"), C(None), I("b")))
    add("ternary-none3", A.TernaryOp(I("a"), I("b"), C(None)))
    add("ternary-missing", A.TernaryOp(None, I("a"), I("b")))
    add("ternary-lists", A.TernaryOp(A.ExprList([I("a"), I("b")]), A.InitList([I("c")]), A.Compound([])))
    bad = lambda: A.BinaryOp("**", A.BinaryOp("+", I("a"), I("b")), I("c"))  # noqa: E731
    fd = lambda: A.FuncDef(decl("g", A.FuncDecl(None, td("g"))), None, A.Compound([]))  # noqa: E731
    add("order-ternary-1", A.TernaryOp(C(None), bad(), bad()))
    add("order-ternary-2", A.TernaryOp(I("a"), C(None), bad()))
    add("order-ternary-3", A.TernaryOp(fd(), C(None), bad()))
    add("order-while", A.While(C(None), A.Compound([fd(), bad()])))
    add("order-while-2", A.While(fd(), A.Compound([I("x")])))
    add("order-dowhile", A.DoWhile(C(None), A.Compound([fd(), bad()])))
    add("order-dowhile-2", A.DoWhile(fd(), fd()))
    add("order-switch", A.Switch(C(None), A.Compound([fd(), bad()])))
    add("order-switch-2", A.Switch(fd(), A.Compound([I("x")])))
    add("order-staticassert", A.StaticAssert(C(None), bad()))
    add("order-staticassert-2", A.StaticAssert(fd(), C(None)))
    add("order-if", A.If(C(None), bad(), fd()))
    add("order-for", A.For(fd(), C(None), bad(), fd()))
    add("order-binop", A.BinaryOp("+", C(None), bad()))
    add("order-binop-2", A.BinaryOp("**", bad(), C(None)))
    add("order-decl", decl("x", td("x", t=C(None)), funcspec=None, storage=["static"], align=[bad()]))
    add("order-decl-2", decl("x", A.PtrDecl(["const"], A.ArrayDecl(td("x", ["volatile"], C(None)), bad(), ["static"])), align=[fd()]))
    add("order-struct", A.Struct("s", [fd(), bad()]))
    add("order-enum", A.Enum("e", A.EnumeratorList([A.Enumerator("A", fd()), A.Enumerator("B", bad())])))
    add("order-compound", A.Compound([A.Compound([fd(), bad()])]))
    add("assign-nested", A.Assignment("=", I("a"), A.Assignment("+=", I("b"), A.Assignment("=", I("c"), I("d")))))
    add("assign-none", A.Assignment("=", I("a"), C(None)))
    add("assign-exprlist", A.Assignment("=", A.ExprList([I("a")]), A.InitList([C("1"), C("2")])))
    for op in ("sizeof", "p++", "p--", "++", "--", "-", "+", "!", "~", "&", "*", "_Alignof", "weird", ""):
        add(f"unary-{op}-simple", A.UnaryOp(op, I("a")))
        add(f"unary-{op}-complex", A.UnaryOp(op, A.BinaryOp("+", I("a"), I("b"))))
        add(f"unary-{op}-unary", A.UnaryOp(op, A.UnaryOp("p++", A.UnaryOp("-", I("a")))))
    add("unary-none-op", A.UnaryOp(None, I("a")))
    add("unary-none-expr", A.UnaryOp("-", None))
    add("unary-sizeof-typename", A.UnaryOp("sizeof", A.Typename(None, [], None, A.PtrDecl(["const"], td(None)))))
    add("structref-const", A.StructRef(C("1"), ".", I("x")))
    add("structref-arrow-const", A.StructRef(C("1"), "->", I("x")))
    add("structref-binop", A.StructRef(A.BinaryOp("+", I("a"), I("b")), "->", I("x")))
    add("structref-nested", A.StructRef(A.StructRef(A.ArrayRef(I("a"), C("1")), ".", I("b")), "->", I("c")))
    add("structref-none-type", A.StructRef(I("a"), None, I("x")))
    add("arrayref-cast", A.ArrayRef(A.Cast(A.Typename(None, [], None, A.PtrDecl([], td(None))), I("p")), A.ExprList([I("i"), I("j")])))
    add("arrayref-none", A.ArrayRef(I("a"), None))
    add("funccall-noargs", A.FuncCall(I("f"), None))
    add("funccall-emptyargs", A.FuncCall(I("f"), A.ExprList([])))
    add("funccall-complex", A.FuncCall(A.UnaryOp("*", I("f")), A.ExprList([A.ExprList([I("a"), I("b")]), A.InitList([I("c")]), A.Compound([I("d")])])))
    add("funccall-nonlist-args", A.FuncCall(I("f"), I("a")))
    add("cast-complex", A.Cast(A.Typename(None, ["const"], None, td(None, ["const"])), A.BinaryOp("+", I("a"), I("b"))))
    add("cast-declname", A.Cast(A.Typename("nm", [], None, A.PtrDecl([], td("nm"))), I("a")))
    add("cast-none", A.Cast(None, I("a")))
    add("exprlist-nested", A.ExprList([A.ExprList([I("a"), I("b")]), A.InitList([I("c"), A.InitList([])]), I("d")]))
    add("exprlist-empty", A.ExprList([]))
    add("exprlist-none-item", A.ExprList([I("a"), C(None)]))
    add("initlist-nested", A.InitList([A.ExprList([I("a"), I("b")]), A.InitList([I("c")]), A.NamedInitializer([I("x"), C("1"), I("y")], A.InitList([C("2")]))]))
    add("initlist-empty", A.InitList([]))
    add("namedinit-empty", A.NamedInitializer([], I("a")))
    add("namedinit-exprlist", A.NamedInitializer([A.BinaryOp("+", I("a"), C("1"))], A.ExprList([I("p"), I("q")])))
    add("compoundliteral", A.CompoundLiteral(A.Typename(None, [], None, A.ArrayDecl(td(None), None, [])), A.InitList([C("1"), C("2")])))
    add("pragma-empty", A.Pragma(""))
    add("pragma-none", A.Pragma(None))
    add("pragma-str", A.Pragma("omp parallel"))
    add("pragma-node", A.Pragma(A.Constant("string", '"once"')))
    add("pragma-node-none", A.Pragma(C(None)))
    add("idtype-empty", it())
    add("idtype-multi", it("unsigned", "long", "int"))
    add("constant-none", C(None))
    add("id-none", I(None))

    # declarations and types
    add("decl-full", decl("x", td("x", ["const"]), quals=["const"], storage=["static", "extern"], funcspec=["inline", "_Noreturn"], align=[A.Alignas(C("8")), A.Alignas(A.Typename(None, [], None, td(None)))], init=A.InitList([C("1")]), bitsize=C("3")))
    add("decl-init-exprlist", decl("x", td("x"), init=A.ExprList([C("1"), C("2")])))
    add("decl-init-compound", decl("x", td("x"), init=A.Compound([])))
    add("decl-noname", decl(None, td(None)))
    add("decl-bitsize-only", decl(None, td(None), bitsize=C("0")))
    add("decl-struct-type", decl(None, A.Struct("s", [decl("a", td("a")), decl("b", A.PtrDecl(["const"], td("b")))])))
    add("decl-none-type", decl("x", None))
    add("decl-decl-type", decl("x", decl("y", td("y"), storage=["static"])))
    add("decllist", A.DeclList([decl("a", td("a"), init=C("1")), decl("b", A.PtrDecl([], td("b")), init=C("2"), bitsize=C("4")), decl("c", td("c"))]))
    add("decllist-single", A.DeclList([decl("a", td("a"))]))
    add("decllist-empty", A.DeclList([]))
    add("typedef-storage", A.Typedef("T", [], ["typedef"], A.PtrDecl(["const", "volatile"], td("T", ["const"]))))
    add("typedef-nostorage", A.Typedef("T", [], [], td("T")))
    add("typedef-multi-storage", A.Typedef("T", [], ["extern", "typedef"], A.ArrayDecl(td("T"), C("3"), ["static", "const"])))
    add("typename-plain", A.Typename(None, [], None, td(None)))
    add("typename-nested", A.Typename("n", [], None, A.Typename("m", [], None, A.PtrDecl([], td("m")))))
    add("typedecl-direct", td("v", ["const", "volatile"]))
    add("typedecl-none-type", A.TypeDecl("v", [], None, None))
    add("typedecl-struct", A.TypeDecl("v", [], None, A.Struct("s", None)))
    add("ptrdecl-direct", A.PtrDecl(["const"], td("v")))
    add("ptrdecl-quals-noname", A.PtrDecl(["const"], td(None)))
    add("ptrdecl-chain", A.PtrDecl([], A.PtrDecl(["restrict"], A.PtrDecl([], td("v")))))
    add("arraydecl-direct", A.ArrayDecl(td("v"), C("3"), []))
    add("arraydecl-dimquals-nodim", A.ArrayDecl(td("v"), None, ["static", "const"]))
    add("funcdecl-direct", A.FuncDecl(A.ParamList([decl("a", td("a")), A.EllipsisParam()]), td("f")))
    add("funcdecl-noargs", A.FuncDecl(None, td("f")))
    add("funcdecl-emptyparams", A.FuncDecl(A.ParamList([]), td("f")))
    add("ptr-to-array", decl("a", A.PtrDecl([], A.ArrayDecl(td("a"), C("3"), []))))
    add("array-of-ptr", decl("a", A.ArrayDecl(A.PtrDecl([], td("a")), C("3"), [])))
    add("ptr-to-func", decl("f", A.PtrDecl([], A.FuncDecl(None, td("f")))))
    add("func-ret-ptr", decl("f", A.FuncDecl(None, A.PtrDecl([], td("f")))))
    add("ptrq-to-array", decl("a", A.PtrDecl(["const"], A.ArrayDecl(td("a"), None, []))))
    add("ptrq-to-func-noname", A.Typename(None, [], None, A.PtrDecl(["const"], A.FuncDecl(None, td(None)))))
    add("deep-mods", decl("x", A.ArrayDecl(A.PtrDecl([], A.FuncDecl(A.ParamList([A.Typename(None, [], None, td(None))]), A.PtrDecl(["const"], A.ArrayDecl(A.PtrDecl([], A.PtrDecl([], td("x", ["volatile"]))), C("2"), ["static"])))), None, [])))
    add("array-func-array", decl("x", A.ArrayDecl(A.FuncDecl(None, A.ArrayDecl(td("x"), None, [])), None, [])))
    add("mods-to-struct", decl("x", A.PtrDecl([], A.Struct("s", None))))
    add("mods-to-idtype", decl("x", A.PtrDecl([], it("int"))))
    add("mods-to-none", decl("x", A.PtrDecl([], None)))
    add("alignas-none", A.Alignas(None))
    add("alignas-const-none", A.Alignas(C(None)))

    # struct / union / enum
    add("struct-nodecls", A.Struct("s", None))
    add("struct-empty", A.Struct("s", []))
    add("struct-noname", A.Struct(None, [decl("a", td("a"))]))
    add("struct-nested", A.Struct("s", [decl(None, A.Union(None, [decl("a", td("a")), decl(None, A.Struct("t", [])), decl(None, A.Enum("e", A.EnumeratorList([A.Enumerator("A", None)])))])), A.Pragma("pack"), A.StaticAssert(C("1"), None)]))
    add("struct-weird-members", A.Struct("s", [I("a"), E(), A.Compound([]), A.If(I("c"), E(), None)]))
    add("union-nodecls", A.Union("u", None))
    add("union-empty-noname", A.Union(None, []))
    add("enum-novalues", A.Enum("e", None))
    add("enum-empty", A.Enum("e", A.EnumeratorList([])))
    add("enum-noname", A.Enum(None, A.EnumeratorList([A.Enumerator("A", C("1")), A.Enumerator("B", None), A.Enumerator("C", A.BinaryOp("+", I("A"), C("1")))])))
    add("enum-falsy-value", A.Enum("e", A.EnumeratorList([A.Enumerator("A", C(None))])))
    add("enum-none-enumerators", A.Enum("e", A.EnumeratorList(None)))
    add("enum-weird-members", A.Enum("e", A.EnumeratorList([I("a"), I("b")])))
    add("enumerator-direct", A.Enumerator("A", C("5")))
    add("enumeratorlist-direct", A.EnumeratorList([A.Enumerator("A", None), A.Enumerator("B", C("2"))]))

    # statements
    add("if-nocond", A.If(None, E(), None))
    add("if-noelse", A.If(I("a"), A.Compound([I("b")]), None))
    add("if-chain", A.If(I("a"), A.If(I("b"), E(), A.Return(None)), A.If(I("c"), A.Compound(None), A.Compound([]))))
    add("if-none-true", A.If(I("a"), None, None))
    add("if-cond-none-const", A.If(C(None), E(), None))
    add("for-empty", A.For(None, None, None, E()))
    add("for-full", A.For(A.DeclList([decl("i", td("i"), init=C("0")), decl("j", td("j"))]), A.BinaryOp("<", I("i"), I("n")), A.ExprList([A.UnaryOp("p++", I("i")), A.UnaryOp("--", I("j"))]), A.Compound([A.Continue()])))
    add("for-none-const", A.For(C(None), None, None, E()))
    add("for-cond-none-const", A.For(None, C(None), None, E()))
    add("for-next-none-const", A.For(None, None, C(None), E()))
    add("for-nostmt", A.For(None, None, None, None))
    add("while-nocond", A.While(None, E()))
    add("while-compound", A.While(I("a"), A.Compound([A.Break()])))
    add("while-none-const", A.While(C(None), E()))
    add("while-nostmt", A.While(I("a"), None))
    add("dowhile-nocond", A.DoWhile(None, E()))
    add("dowhile-compound", A.DoWhile(I("a"), A.Compound([A.While(I("b"), I("c"))])))
    add("dowhile-none-const", A.DoWhile(C(None), E()))
    add("dowhile-funcdef-stmt", A.DoWhile(I("a"), A.FuncDef(decl("g", A.FuncDecl(None, td("g"))), None, A.Compound([]))))
    add("switch", A.Switch(I("a"), A.Compound([A.Case(C("1"), [I("b"), A.Break()]), A.Case(C("2"), []), A.Default([A.Compound([I("c")]), A.If(I("d"), E(), E())]), A.Default([])])))
    add("switch-none-cond", A.Switch(None, E()))
    add("switch-none-const", A.Switch(C(None), E()))
    add("case-none-expr", A.Case(None, [E()]))
    add("case-none-stmts", A.Case(C("1"), None))
    add("default-none-stmts", A.Default(None))
    add("label-compound", A.Label("L", A.Compound([A.Goto("L")])))
    add("label-label", A.Label("L", A.Label("M", A.If(I("a"), E(), None))))
    add("label-none-name", A.Label(None, E()))
    add("goto-none", A.Goto(None))
    add("return-none", A.Return(None))
    add("return-exprlist", A.Return(A.ExprList([I("a"), I("b")])))
    add("return-const-none", A.Return(C(None)))
    add("staticassert-nomsg", A.StaticAssert(I("a"), None))
    add("staticassert-msg", A.StaticAssert(A.BinaryOp("==", I("a"), C("1")), A.Constant("string", '"m"')))
    add("staticassert-none-cond", A.StaticAssert(None, A.Constant("string", '"m"')))
    add("staticassert-const-none", A.StaticAssert(C(None), None))
    add("staticassert-msg-none", A.StaticAssert(I("a"), C(None)))
    add("compound-none-items", A.Compound(None))
    add("compound-nested", A.Compound([A.Compound([A.Compound([I("a")]), decl("x", td("x"))]), A.Typedef("T", [], ["typedef"], td("T")), A.Pragma("x"), A.Label("L", E()), A.Cast(A.Typename(None, [], None, td(None)), I("v")), A.CompoundLiteral(A.Typename(None, [], None, td(None)), A.InitList([C("1")])), A.ExprList([I("p"), I("q")]), A.TernaryOp(I("a"), I("b"), I("c")), A.StructRef(I("s"), ".", I("f")), A.ArrayRef(I("a"), C("0")), C("7"), A.Struct("s", []), A.DeclList([decl("m", td("m"))]), A.StaticAssert(C("1"), None), A.InitList([C("1")]), A.Switch(I("a"), A.Case(C("1"), [E()]))]))
    add("compound-with-none", A.Compound([None]))
    fdecl = decl("f", A.FuncDecl(A.ParamList([decl("a", td("a"))]), td("f")), storage=["static"], funcspec=["inline"])
    add("funcdef", A.FuncDef(fdecl, None, A.Compound([A.Return(I("a"))])))
    add("funcdef-knr", A.FuncDef(decl("f", A.FuncDecl(A.ParamList([I("a"), I("b")]), td("f"))), [decl("a", td("a")), decl("b", A.PtrDecl([], td("b", t=it("char"))))], A.Compound([])))
    add("funcdef-empty-knr", A.FuncDef(fdecl, [], A.Compound(None)))
    add("funcdef-in-compound", A.Compound([A.Compound([A.FuncDef(fdecl, None, A.Compound([I("x")])), I("after")]), I("after2")]))
    add("funcdef-in-struct", A.Struct("s", [decl("a", td("a")), A.FuncDef(fdecl, None, A.Compound([])), decl("b", td("b"))]))
    add("funcdef-in-enum-value", A.Enum("e", A.EnumeratorList([A.Enumerator("A", A.FuncDef(fdecl, None, A.Compound([]))), A.Enumerator("B", None)])))
    add("funcdef-none-body", A.FuncDef(fdecl, None, None))
    add("fileast", A.FileAST([decl("a", td("a")), A.Pragma("p"), A.FuncDef(fdecl, None, A.Compound([])), A.Typedef("T", [], ["typedef"], td("T")), A.StaticAssert(C("1"), None), A.Pragma(A.Constant("string", '"q"')), E(), I("x")]))
    add("fileast-empty", A.FileAST([]))
    add("fileast-none-item", A.FileAST([C(None)]))
    add("paramlist", A.ParamList([decl("a", td("a")), A.Typename(None, [], None, A.PtrDecl([], td(None))), A.EllipsisParam(), I("k")]))
    add("paramlist-empty", A.ParamList([]))
    return cases


def digest_hand_built():
    gen_cls = c_generator.CGenerator
    for name, node in hand_built():
        print("=" * 70)
        print("HAND", name)
        for rp in (False, True):
            print(f"--gen reduce_parentheses={rp}--")
            print(gen_text(node, rp))
        # statement context, with a non-zero starting indentation
        for add_indent in (False, True):
            g = gen_cls()
            g.indent_level = 3
            try:
                print(f"--stmt add_indent={add_indent}: {g._generate_stmt(node, add_indent=add_indent)!r} lvl={g.indent_level!r}")
            except Exception as e:  # noqa: BLE001
                print(f"--stmt add_indent={add_indent}: {describe_exc(e)} lvl={g.indent_level!r}")
        # expression / type / parenthesisation helpers
        for label, fn in (
            ("_visit_expr", lambda g, n: g._visit_expr(n)),
            ("_generate_type", lambda g, n: g._generate_type(n)),
            ("_generate_type-nodeclname", lambda g, n: g._generate_type(n, emit_declname=False)),
            ("_generate_type-mods", lambda g, n: g._generate_type(n, [c_ast.PtrDecl(["const"], None), c_ast.ArrayDecl(None, None, ["static"]), c_ast.PtrDecl([], None), c_ast.FuncDecl(None, None)])),
            ("_parenthesize_unless_simple", lambda g, n: g._parenthesize_unless_simple(n)),
            ("_parenthesize_if-true", lambda g, n: g._parenthesize_if(n, lambda d: True)),
            ("_is_simple_node", lambda g, n: g._is_simple_node(n)),
            ("_make_indent", lambda g, n: g._make_indent()),
        ):
            g = gen_cls(reduce_parentheses=True)
            g.indent_level = 1
            try:
                print(f"--{label}: {fn(g, node)!r} lvl={g.indent_level!r}")
            except Exception as e:  # noqa: BLE001
                print(f"--{label}: {describe_exc(e)} lvl={g.indent_level!r}")
        if isinstance(node, (c_ast.Struct, c_ast.Union, c_ast.Enum)):
            for nm in ("struct", "union", "enum", "other", None):
                g = gen_cls()
                try:
                    print(f"--sue name={nm!r}: {g._generate_struct_union_enum(node, nm)!r} lvl={g.indent_level!r}")
                except Exception as e:  # noqa: BLE001
                    print(f"--sue name={nm!r}: {describe_exc(e)} lvl={g.indent_level!r}")
        if isinstance(node, c_ast.Decl):
            for no_type in (False, True):
                g = gen_cls()
                try:
                    print(f"--visit_Decl no_type={no_type}: {g.visit_Decl(node, no_type=no_type)!r}")
                except Exception as e:  # noqa: BLE001
                    print(f"--visit_Decl no_type={no_type}: {describe_exc(e)}")
            g = gen_cls()
            try:
                print(f"--_generate_decl: {g._generate_decl(node)!r}")
            except Exception as e:  # noqa: BLE001
                print(f"--_generate_decl: {describe_exc(e)}")


def main():
    g = c_generator.CGenerator()
    print("PRECEDENCE", sorted(c_generator.CGenerator.precedence_map.items()))
    print("INIT", g.indent_level, g.reduce_parentheses, c_generator.CGenerator(True).reduce_parentheses)
    for lvl in (-2, 0, 1, 7):
        g.indent_level = lvl
        print("INDENT", lvl, repr(g._make_indent()), g.indent_level)
    for p in c_files():
        digest_source(p, path=p)
    for name, src in snippets():
        digest_source(name, text=src)
    digest_hand_built()


if __name__ == "__main__":
    main()
