"""Behaviour digest for the c_ast / _ast_gen / ast_transforms / __init__ area.

Run as:  cd <repo root> && /venv/bin/python equiv.py > out.txt
Deterministic: no timestamps, no ids, no hash-order dependent output.
"""

import ast as pyast
import hashlib
import io
import os
import sys
import tempfile

sys.path.insert(0, os.getcwd())
sys.setrecursionlimit(3000)

import pycparser  # noqa: E402
from pycparser import c_ast, c_generator, c_parser, parse_file, preprocess_file  # noqa: E402
from pycparser import _ast_gen  # noqa: E402


def banner(title):
    print("=" * 78)
    print(title)
    print("=" * 78)


def exc_line(e):
    return f"EXC {type(e).__module__}.{type(e).__name__}: {e}"


class CountingVisitor(c_ast.NodeVisitor):
    """Has some explicit visit_XXX methods, relies on generic_visit otherwise."""

    def __init__(self):
        self.log = []

    def visit_Constant(self, node):
        self.log.append(("Constant", node.type, node.value))

    def visit_ID(self, node):
        self.log.append(("ID", node.name))

    def visit_Case(self, node):
        self.log.append(("Case", len(node.stmts or [])))
        self.generic_visit(node)

    def visit_Default(self, node):
        self.log.append(("Default", len(node.stmts or [])))
        self.generic_visit(node)

    def visit_Decl(self, node):
        self.log.append(("Decl", node.name, tuple(node.quals), tuple(node.storage)))
        return self.generic_visit(node)

    def visit_TypeDecl(self, node):
        self.log.append(("TypeDecl", node.declname, tuple(node.quals)))
        self.generic_visit(node)


def walk(node, depth=0, out=None):
    """children() / __iter__ consistency walk."""
    if out is None:
        out = []
    kids = node.children()
    it = list(node)
    same = [c for _, c in kids] == it and all(a is b for (_, a), b in zip(kids, it))
    out.append(
        f"{'.' * depth}{type(node).__name__}"
        f"[{','.join(n for n, _ in kids)}] iter_ok={same}"
        f" attrs={[(a, getattr(node, a)) for a in node.attr_names]!r}"
    )
    for _, c in kids:
        walk(c, depth + 1, out)
    return out


def digest_ast(ast, full):
    buf = io.StringIO()
    ast.show(buf=buf, showcoord=True)
    print(buf.getvalue(), end="")
    print("--- C")
    try:
        print(c_generator.CGenerator().visit(ast))
    except Exception as e:  # noqa: BLE001
        print(exc_line(e))
    if not full:
        return
    for kw in (
        dict(attrnames=True, nodenames=True),
        dict(attrnames=True, showemptyattrs=False, offset=3),
        dict(showemptyattrs=False, nodenames=True, showcoord=True),
    ):
        buf = io.StringIO()
        ast.show(buf=buf, **kw)
        print(f"--- show {sorted(kw.items())}")
        print(buf.getvalue(), end="")
    print("--- repr")
    print(repr(ast))
    print("--- walk")
    print("\n".join(walk(ast)))
    v = CountingVisitor()
    r = v.visit(ast)
    print("--- visitor", r)
    for item in v.log:
        print("   ", item)
    print("   cache keys:", sorted(v._method_cache))
    print("   class cache:", CountingVisitor._method_cache, c_ast.NodeVisitor._method_cache)


def run_source(label, text, full=True, filename="<snip>"):
    print(f"##### {label}")
    print("SRC " + repr(text))
    try:
        ast = c_parser.CParser().parse(text, filename)
    except Exception as e:  # noqa: BLE001
        print(exc_line(e))
        return
    digest_ast(ast, full)


# ---------------------------------------------------------------------------
# A. files
# ---------------------------------------------------------------------------
def section_files():
    banner("A. files")
    paths = []
    for root in ("tests/c_files", "examples/c_files"):
        for dirpath, dirnames, filenames in os.walk(root):
            dirnames.sort()
            for fn in sorted(filenames):
                paths.append(os.path.join(dirpath, fn))
    for p in paths:
        print(f"##### FILE {p}")
        try:
            ast = parse_file(p)
        except Exception as e:  # noqa: BLE001
            print(exc_line(e))
            continue
        digest_ast(ast, full=os.path.getsize(p) < 6000)


# ---------------------------------------------------------------------------
# B. snippets
# ---------------------------------------------------------------------------
def snippets():
    out = []

    # expressions, systematically
    binops = ["+", "-", "*", "/", "%", "<<", ">>", "<", "<=", ">", ">=", "==", "!=",
              "&", "^", "|", "&&", "||"]
    for a in binops:
        out.append(f"int f(int a, int b, int c) {{ return a {a} b * c - (a {a} 3); }}")
    for a in binops[::3]:
        for b in binops[1::4]:
            out.append(f"int x = 1 {a} 2 {b} 3 {a} 4;")
    for op in ["=", "+=", "-=", "*=", "/=", "%=", "<<=", ">>=", "&=", "^=", "|="]:
        out.append(f"void f(void) {{ a {op} b {op} c ? d : e, g; }}")
    for u in ["-", "+", "!", "~", "*", "&", "++", "--", "sizeof ", "_Alignof(int) + "]:
        out.append(f"void f(void) {{ x = {u}y; z = {u}(y)[1]; }}")
    out += [
        "void f(void) { x = y++ + --z - w--; }",
        "void f(void) { x = sizeof(int*) + sizeof(struct s) + sizeof x + sizeof(x); }",
        "void f(void) { x = (char)(unsigned long)p->a.b[3](1, 2)(); }",
        "void f(void) { x = (struct s){1, .a = 2, [3] = 4, .b[1].c = 5}; }",
        "void f(void) { x = a ? b ? c : d : e ? f : g; }",
        "void f(void) { x = \"a\" \"b\" L\"c\"; y = 'a'; z = L'b'; w = u8\"s\"; }",
        "void f(void) { x = 0x1fUL + 017 + 0b11 + 1.5e3f + .5L + 0x1.8p3 + 10u; }",
        "void f(void) { x = __builtin_offsetof(struct s, a.b[2]); }",
        "void f(void) { x = _Generic(y, int: 1, default: 2); }",
        "void f(void) { x = ({ int q = 1; q; }); }",
        "int a[] = {1, 2, {3, 4}, [5 ... 6] = 7};",
        "int a[3][4] = {{1}, {2, 3}};",
    ]

    # switch statements (fix_switch_cases)
    out += [
        "void f(int v) { switch (v) { case 1: a = 1; b = 2; return; case 2: case 3: return; default: break; } }",
        "void f(int v) { switch (v) {} }",
        "void f(int v) { switch (v) ; }",
        "void f(int v) { switch (v) a = 1; }",
        "void f(int v) { switch (v) case 1: a = 1; }",
        "void f(int v) { switch (v) default: case 1: case 2: a = 1; }",
        "void f(int v) { switch (v) { a = 1; b = 2; case 1: c = 3; } }",
        "void f(int v) { switch (v) { int q; q = 1; default: case 1: case 2: default: x; y; case 3: ; } }",
        "void f(int v) { switch (v) { case 1: case 2: case 3: case 4: case 5: z = 1; z = 2; } }",
        "void f(int v) { switch (v) { default: default: break; } }",
        "void f(int v) { switch (v) { case 1: { case 2: a; } b; case 3: switch (w) { case 4: case 5: c; d; } e; } }",
        "void f(int v) { switch (v) { case 1: lbl: case 2: a; b; } }",
        "void f(int v) { switch (v) { case 1: if (a) case 2: b; c; } }",
        "void f(int v) { switch (v) { case 1 ... 3: a; case 'x': b; case (4): case 5+1: c; d; e; } }",
        "void f(int v) { switch (v) { case 1: ; case 2: ; ; default: ; } }",
        "void f(int v) { switch (v) { case 1: } }",
        "void f(int v) { switch (v) { default: } }",
        "void f(int v) { switch (v) { case: a; } }",
        "void f(int v) { switch v { case 1: a; } }",
        "void f(int v) { switch (v) { case 1: int x; x = 1; } }",
        "void f(int v) { switch (v) { #pragma foo\n case 1: a;\n #pragma bar\n b; default: c; } }",
        "void f(int v) { for (;;) switch (v) { case 1: continue; default: while (1) switch (w) { case 2: case 3: break; } } }",
        "void f(int v) { do switch (v) { case 0: case 1: default: case 2: v++; } while (v); }",
    ]

    # _Atomic (fix_atomic_specifiers)
    out += [
        "_Atomic(int) a;",
        "_Atomic(int) a, b, *c, d[3];",
        "_Atomic(int *) a;",
        "_Atomic(int) *a;",
        "_Atomic(_Atomic(int) *) a;",
        "_Atomic(_Atomic(_Atomic(int) *) *) a, b;",
        "const _Atomic(int) a;",
        "_Atomic(int) const a;",
        "_Atomic(const int) a;",
        "_Atomic(volatile int *) const volatile a, * restrict b;",
        "_Atomic int a;",
        "_Atomic int *a, b;",
        "int * _Atomic a;",
        "const _Atomic int a;",
        "_Atomic const int * _Atomic a;",
        "typedef _Atomic(int) atomic_int;",
        "typedef _Atomic(int) atomic_int, *atomic_intp; atomic_int x; atomic_intp y;",
        "typedef _Atomic int atomic_int;",
        "typedef _Atomic(_Atomic(int *)) t;",
        "typedef _Atomic(struct s { int a; _Atomic(int) b; }) as_t, bs_t;",
        "_Atomic(struct s { int a; }) a, b;",
        "_Atomic(union u { int a; float f; } *) a, b[2];",
        "_Atomic(enum e { A, B }) a;",
        "_Atomic(unsigned long long) a = 1, b = 2;",
        "static _Atomic(int) a; extern _Atomic(char) b;",
        "_Atomic(int) f(void);",
        "_Atomic(int) *f(_Atomic(int) a, _Atomic(char *) b);",
        "int f(_Atomic(int) a, _Atomic int b, int * _Atomic c) { _Atomic(int) d = a; return d; }",
        "struct s { _Atomic(int) a; _Atomic int b : 3; _Atomic(int) c, d; };",
        "void f(void) { _Atomic(int) a, b; for (_Atomic(int) i = 0; ; ) ; }",
        "void f(void) { x = sizeof(_Atomic(int)); y = (_Atomic(int))z; }",
        "_Atomic(int) (*fp)(void);",
        "_Atomic(int (*)(void)) fp;",
        "_Atomic(int [3]) a;",
        "_Atomic(int) a[2][3];",
        "typedef int T; _Atomic(T) a; _Atomic T b; T _Atomic c;",
        "typedef int T; _Atomic(T *) a, *b;",
        "_Atomic() a;",
        "_Atomic(int a;",
        "_Atomic(int)) a;",
        "_Atomic(3) a;",
        "_Atomic(int) ;",
        "_Atomic(_Atomic(int)) a;",
        "_Atomic(_Atomic int) a;",
        "_Atomic _Atomic(int) a;",
        "_Alignas(8) _Atomic(int) a;",
        "_Atomic(int) _Alignas(8) a;",
        "_Noreturn _Atomic(int) f(void);",
        "_Thread_local _Atomic(int) a;",
    ]

    # declarations of many shapes: exercise all node classes
    out += [
        "int a, *b, **c, d[1], *e[2], (*f)[3], g(void), *h(int), (*i)(int, ...);",
        "typedef int T, *PT; T a; PT b; struct S { T T; };",
        "struct s { int a; struct { int b; }; union { int c; float d; } u; int : 3; int e : 2; };",
        "struct s; union u; enum e { A = 1, B, C = A + B, };",
        "enum { X } x; struct {} y; struct { ; } z;",
        "extern int a; static const volatile int b; register int c; inline int f(void) { return 0; }",
        "int f(a, b) int a; char b; { return a + b; }",
        "int f(int a[static 3], int b[const], int c[*], int d[restrict static 2]);",
        "void f(void) { goto l; l: ; { } if (a) b; else if (c) d; else e; }",
        "void f(void) { for (int i = 0, j = 1; i < j; i++, j--) { continue; } for (;;) break; while (1) ; do ; while (0); }",
        "void f(void) { int a = 1; { int a = 2; } return; }",
        "_Static_assert(1, \"msg\"); _Static_assert(2);",
        "#pragma once\nint a;\n#pragma pack(1)\nstruct s { \n#pragma inner\n int a; };",
        "void f(void) { _Pragma(\"omp parallel\") for (;;) ; }",
        "# 10 \"foo.h\"\nint a;\n# 20 \"bar.h\" 2\nint b;\n#line 5\nint c;",
        "int a; ; ; int b;",
        "",
        "   \n\t\n",
        ";",
        "int (a);",
        "int (*(*a)(void))[3];",
        "char *s = \"str\" , c = 'c';",
        "unsigned long long int a; long double b; signed char c; short int d; _Bool e; _Complex double f; __int128 g;",
        "void (*signal(int, void (*)(int)))(int);",
        "int f(int, char *, ...);",
        "int f(void) { return ((int (*)(int))g)(1); }",
        "typedef struct node { struct node *next; int v; } node_t; node_t *head = 0;",
        "int a = sizeof(int[3]), b = _Alignof(struct s *);",
        "int x = (int){1}, y = ((struct p){.x = 1}).x;",
    ]

    # error cases
    out += [
        "int a",
        "int a = ;",
        "int 3a;",
        "int a = 1 +;",
        "void f(void) { return }",
        "void f(void) { if a b; }",
        "void f(void) { x = (int; }",
        "void f(void) { x = a ? b; }",
        "void f(void) { x = a[; }",
        "void f(void) { case 1: ; }",
        "struct { int a };",
        "enum e { };",
        "int a @ b;",
        "int a = 'ab\n';",
        "int a = \"unterminated;",
        "int a = 09;",
        "typedef int T; int T;",
        "typedef int T; T T;",
        "int T; typedef int T;",
        "void f(void) { int x; typedef int x; }",
        "foo bar;",
        "int f(void) { return 1; ",
        "int f(void) return 1; }",
        "}",
        "int a; )",
        "int a[;",
        "void f(int a,);",
        "void f(..., int a);",
        "int a = {1, 2;",
        "int a = (struct s){;",
        "# 10 foo\nint a",
        "#line\nint a;",
        "#pragma\nint",
        "_Static_assert(;",
        "int a = _Generic(;",
        "int a = __builtin_offsetof(int);",
        "void f(void) { for (int i = 0; i < 3) ; }",
        "void f(void) { do x; while (1) }",
        "void f(void) { goto ; }",
        "void f(void) { switch (v) { case 1: a; ",
        "long long long a;",
        "int a = 1 ? : 2;",
    ]
    return out


def section_snippets():
    banner("B. snippets")
    snips = snippets()
    print("count", len(snips))
    for i, s in enumerate(snips):
        run_source(f"SNIP {i}", s, full=True)
    # a few with a different filename / reused parser instance
    p = c_parser.CParser()
    for i, s in enumerate(["int a;", "typedef int T; T b;", "T c;", "int d", "_Atomic(int) e, f;"]):
        print(f"##### REUSE {i}")
        try:
            ast = p.parse(s, f"file{i}.c")
            digest_ast(ast, full=True)
        except Exception as e:  # noqa: BLE001
            print(exc_line(e))


# ---------------------------------------------------------------------------
# C. c_ast API direct use
# ---------------------------------------------------------------------------
def section_c_ast_api():
    banner("C. c_ast API")
    names = sorted(
        n for n in dir(c_ast)
        if isinstance(getattr(c_ast, n), type) and issubclass(getattr(c_ast, n), c_ast.Node)
    )
    print("node classes:", names)
    print("module names:", sorted(n for n in dir(c_ast) if not n.startswith("__")))
    print("Node attrs:", sorted(n for n in vars(c_ast.Node) if not n.startswith("__") or n in ("__repr__", "__slots__")))
    print("NodeVisitor attrs:", sorted(n for n in vars(c_ast.NodeVisitor) if not n.startswith("__")))
    for n in names:
        cls = getattr(c_ast, n)
        if cls is c_ast.Node:
            print(n, cls.__slots__, cls.attr_names, cls.__doc__)
            continue
        slots = cls.__slots__
        nargs = len(slots) - 2
        print(f"--- {n} slots={slots} attr_names={cls.attr_names}")
        # all None
        inst = cls(*([None] * nargs))
        print("  none:", repr(inst), inst.children(), list(inst), inst.coord)
        # leaf values: IDs for everything, lists of IDs for everything
        inst = cls(*[c_ast.ID(f"v{i}") for i in range(nargs)], coord="C")
        print("  ids :", repr(inst))
        try:
            print("       ", [(k, repr(v)) for k, v in inst.children()], [repr(x) for x in inst])
        except Exception as e:  # noqa: BLE001
            print("       ", exc_line(e))
        inst = cls(*[[c_ast.ID(f"l{i}a"), c_ast.Constant("int", str(i))] for i in range(nargs)], coord=None)
        print("  lsts:", repr(inst))
        try:
            print("       ", [(k, repr(v)) for k, v in inst.children()])
        except Exception as e:  # noqa: BLE001
            print("       ", exc_line(e))
        try:
            print("       ", [repr(x) for x in inst])
        except Exception as e:  # noqa: BLE001
            print("       ", exc_line(e))
        inst = cls(*[[] for _ in range(nargs)])
        for kw in (dict(), dict(showemptyattrs=False), dict(attrnames=True, nodenames=True, showcoord=True, offset=1)):
            buf = io.StringIO()
            try:
                inst.show(buf=buf, **kw)
                print("  show", sorted(kw.items()), repr(buf.getvalue()))
            except Exception as e:  # noqa: BLE001
                print("  show", sorted(kw.items()), exc_line(e), repr(buf.getvalue()))
        inst = cls(*["s" for _ in range(nargs)])
        buf = io.StringIO()
        try:
            inst.show(buf=buf, attrnames=True, _my_node_name="me", nodenames=True)
            print("  show str", repr(buf.getvalue()))
        except Exception as e:  # noqa: BLE001
            print("  show str", exc_line(e), repr(buf.getvalue()))
        try:
            cls(*([None] * (nargs + 2)))
        except Exception as e:  # noqa: BLE001
            print("  too many:", exc_line(e))
        try:
            inst.nonexistent = 1
        except Exception as e:  # noqa: BLE001
            print("  slots:", exc_line(e))

    # show to stdout by default
    c_ast.ID("x").show()
    c_ast.ID("x").show(sys.stdout, 2, True, False, True, True, "nm")
    # _repr
    print(c_ast._repr([1, [2, 3], "a\nb", c_ast.ID("q"), []]))
    print(c_ast._repr("x"), c_ast._repr(None), c_ast._repr(()))

    # visitors
    class V1(c_ast.NodeVisitor):
        pass

    class V2(c_ast.NodeVisitor):
        def __init__(self):
            self.seen = []

        def visit_ID(self, n):
            self.seen.append(n.name)
            return "id!"

        def generic_visit(self, n):
            self.seen.append(type(n).__name__)
            return c_ast.NodeVisitor.generic_visit(self, n)

    tree = c_ast.BinaryOp("+", c_ast.ID("a"), c_ast.BinaryOp("*", c_ast.ID("b"), c_ast.Constant("int", "1")))
    v1 = V1()
    print("V1", v1.visit(tree), v1._method_cache is not None and sorted(v1._method_cache), V1._method_cache)
    v2 = V2()
    print("V2", v2.visit(tree), v2.visit(c_ast.ID("z")), v2.seen, sorted(v2._method_cache))
    v2.visit_Constant = lambda n: v2.seen.append("late " + n.value)
    print("V2 late", v2.visit(tree), v2.seen)  # cached generic_visit for Constant stays
    v3 = V2()
    v3._method_cache = {"ID": lambda n: "preset " + n.name}
    print("V3", v3.visit(c_ast.ID("k")), v3.visit(tree), v3.seen, sorted(v3._method_cache))
    for bad in (None, 3, "s"):
        try:
            print(V1().visit(bad))
        except Exception as e:  # noqa: BLE001
            print("V1 bad", exc_line(e))
    try:
        print(V1().visit(c_ast.Node()))
    except Exception as e:  # noqa: BLE001
        print("V1 Node", exc_line(e))
    print(repr(c_ast.Node()), c_ast.Node().children())
    try:
        c_ast.Node().show(io.StringIO())
    except Exception as e:  # noqa: BLE001
        print("Node show", exc_line(e))


# ---------------------------------------------------------------------------
# D. generator
# ---------------------------------------------------------------------------
def _norm_py(src):
    """Python AST dump with docstring white space normalised (the committed
    c_ast.py is the generator output passed through the code formatter)."""
    tree = pyast.parse(src)
    for n in pyast.walk(tree):
        if isinstance(getattr(n, "body", None), list):
            for s in n.body:
                if (isinstance(s, pyast.Expr) and isinstance(s.value, pyast.Constant)
                        and isinstance(s.value.value, str)):
                    s.value.value = " ".join(s.value.value.split())
    return pyast.dump(tree)


def section_generator():
    banner("D. _ast_gen")
    base = os.path.dirname(_ast_gen.__file__)
    cfg = os.path.join(base, "_c_ast.cfg")
    gen = _ast_gen.ASTCodeGenerator(cfg)
    buf = io.StringIO()
    gen.generate(buf)
    src = buf.getvalue().replace(cfg, "<cfg>")
    # The prologue is the (hand written) library code itself, its behaviour is
    # covered by the other sections; digest what is generated around it.
    head, nodes = src.split(_ast_gen._PROLOGUE_CODE, 1)
    print("generated head sha1", hashlib.sha1(head.encode()).hexdigest(), len(head))
    print("generated node classes sha1", hashlib.sha1(nodes.encode()).hexdigest(), len(nodes))
    with open(os.path.join(base, "c_ast.py")) as f:
        committed = f.read()
    print("c_ast.py in sync with generator (python AST modulo formatting):",
          _norm_py(buf.getvalue()) == _norm_py(committed))
    print("cfg nodes:", [(n.name, n.all_entries, n.attr, n.child, n.seq_child) for n in gen.node_cfg])
    for name, contents in [
        ("Empty", []),
        ("OnlyAttr", ["a", "b"]),
        ("OnlyChild", ["c*"]),
        ("OnlySeq", ["s**"]),
        ("Mixed", ["a", "c*", "s**", "d*", "t**", "b"]),
        ("Stars", ["x***", "*", "**"]),
    ]:
        nc = _ast_gen.NodeCfg(name, contents)
        print(f"--- NodeCfg {name} {contents}: {nc.all_entries} {nc.attr} {nc.child} {nc.seq_child}")
        print(nc.generate_source())
        print("--- parts")
        for part in (nc._gen_init, nc._gen_children, nc._gen_iter, nc._gen_attr_names):
            print(repr(part()))
    # parse_cfgfile incl. malformed lines
    cases = [
        "# comment\n\nA: []\nB: [x, y*, z**]\n   C:[ p ]  \n",
        "A: [a,, b]\n",
        "NoColon [a]\n",
        ": [a]\n",
        "A [a]: \n",
        "A: a]\n",
        "A: [a\n",
        "A: ][\n",
        "A: []]\nB: [[x]\n",
        "A:[]\n#X: [\nB : [ q* ]",
        "",
    ]
    for i, text in enumerate(cases):
        fd, path = tempfile.mkstemp(suffix=".cfg")
        try:
            with os.fdopen(fd, "w") as f:
                f.write(text)
            print(f"--- cfg case {i} {text!r}")
            try:
                g = _ast_gen.ASTCodeGenerator(path)
                print([(n.name, n.all_entries, n.attr, n.child, n.seq_child) for n in g.node_cfg])
                print(list(g.parse_cfgfile(path)))
                b = io.StringIO()
                g.generate(b)
                out = b.getvalue().replace(path, "<cfg>")
                head, nodes = out.split(_ast_gen._PROLOGUE_CODE, 1)
                print(hashlib.sha1(head.encode()).hexdigest(), len(head))
                print(nodes)
            except Exception as e:  # noqa: BLE001
                print(exc_line(e).replace(path, "<cfg>"))
        finally:
            os.unlink(path)
    try:
        _ast_gen.ASTCodeGenerator("/nonexistent/dir/x.cfg")
    except Exception as e:  # noqa: BLE001
        print(exc_line(e))


# ---------------------------------------------------------------------------
# E. package helpers
# ---------------------------------------------------------------------------
def section_package():
    banner("E. parse_file / preprocess_file")
    print(pycparser.__all__, pycparser.__version__, pycparser.CParser is c_parser.CParser)
    f = "examples/c_files/basic.c"
    small = "tests/c_files/simplemain.c"
    for kwargs in (
        dict(cpp_path="/nonexistent/cpp"),
        dict(cpp_path="/nonexistent/cpp", cpp_args="-E"),
        dict(cpp_path="/nonexistent/cpp", cpp_args=["-E", "-I."]),
        dict(cpp_path="cat"),
        dict(cpp_path="cat", cpp_args=""),
        dict(cpp_path="cat", cpp_args="-n"),
        dict(cpp_path="cat", cpp_args=["-n", "-E"]),
        dict(cpp_path="cat", cpp_args=[]),
        dict(cpp_path="cat", cpp_args=("-n",)),
        dict(cpp_path="cat", cpp_args=None),
        dict(cpp_path="false"),
        dict(cpp_path="cat", cpp_args="--definitely-bad-option"),
        dict(cpp_path=""),
        dict(cpp_path=None),
    ):
        print("--- preprocess_file", sorted(kwargs.items(), key=lambda kv: kv[0]))
        try:
            print(repr(preprocess_file(small, **kwargs)))
        except Exception as e:  # noqa: BLE001
            print(exc_line(e))
    print("--- positional")
    print(repr(preprocess_file(small, "cat", "-E")))
    try:
        preprocess_file("/nonexistent/file.c", "cat")
    except Exception as e:  # noqa: BLE001
        print(exc_line(e))

    class FakeParser:
        def parse(self, text, filename):
            return ("FAKE", len(text), filename)

    for args, kwargs in (
        ((f,), {}),
        ((f, False), {}),
        ((f, True, "cat"), {}),
        ((f, True, "cat", "-s"), {}),
        ((f,), dict(use_cpp=True, cpp_path="cat", cpp_args=["-s"])),
        ((f,), dict(use_cpp=True, cpp_path="/nonexistent/cpp", cpp_args=["-s"])),
        ((f,), dict(use_cpp=True, cpp_path="false")),
        ((f,), dict(use_cpp=1, cpp_path="cat", parser=FakeParser())),
        ((f,), dict(use_cpp=0, cpp_path="/nonexistent/cpp", parser=FakeParser(), encoding="latin-1")),
        ((f,), dict(encoding="utf-8")),
        ((f,), dict(encoding="no-such-encoding")),
        ((f,), dict(parser=c_parser.CParser())),
        ((f,), dict(parser=object())),
        (("/nonexistent/file.c",), {}),
        (("/nonexistent/file.c",), dict(use_cpp=True, cpp_path="cat")),
        (("/nonexistent/file.c",), dict(parser=object())),
        (("tests/c_files/empty.h",), {}),
        (("tests/c_files/memmgr_with_h.c",), {}),
    ):
        print("--- parse_file", args, sorted((k, v if isinstance(v, (str, int, list, type(None))) else type(v).__name__) for k, v in kwargs.items()))
        try:
            r = parse_file(*args, **kwargs)
            if isinstance(r, c_ast.Node):
                buf = io.StringIO()
                r.show(buf=buf, showcoord=True)
                print(buf.getvalue(), end="")
            else:
                print(r)
        except Exception as e:  # noqa: BLE001
            print(exc_line(e))
    if os.path.exists("/usr/bin/cpp"):
        print("--- real cpp")
        try:
            r = parse_file("examples/c_files/year.c", use_cpp=True, cpp_path="/usr/bin/cpp",
                           cpp_args=["-nostdinc", "-Iutils/fake_libc_include"])
            buf = io.StringIO()
            r.show(buf=buf, showcoord=True)
            print(buf.getvalue(), end="")
        except Exception as e:  # noqa: BLE001
            print(exc_line(e))


# ---------------------------------------------------------------------------
# F. ast_transforms called directly on hand-built nodes
# ---------------------------------------------------------------------------
def section_transforms():
    from pycparser import ast_transforms as T

    banner("F. ast_transforms direct")
    print("public/private names:", sorted(n for n in vars(T) if not n.startswith("__")
                                          and callable(getattr(T, n)) and getattr(getattr(T, n), "__module__", None) == T.__name__))
    ID, Case, Default, Compound, Switch = c_ast.ID, c_ast.Case, c_ast.Default, c_ast.Compound, c_ast.Switch

    def show(label, fn):
        print("---", label)
        try:
            r = fn()
            print(repr(r))
        except Exception as e:  # noqa: BLE001
            print(exc_line(e))

    def sw(items, coord="cc"):
        return Switch(ID("v"), Compound(items, coord), "sc")

    nested = lambda: Case(ID("1"), [Case(ID("2"), [Default([Case(ID("3"), [ID("s")], "c3")], "d")], "c2")], "c1")  # noqa: E731
    show("nested chain", lambda: T.fix_switch_cases(sw([ID("pre"), nested(), ID("x"), ID("y"), Default([ID("z")]), ID("w")])))
    show("same object returned", lambda: (lambda s_: T.fix_switch_cases(s_) is s_)(sw([nested()])))
    show("compound replaced, coord kept", lambda: (lambda s_, c: (T.fix_switch_cases(s_).stmt is c, s_.stmt.coord))(*(lambda s_: (s_, s_.stmt))(sw([nested()], "CC"))))
    show("idempotent", lambda: T.fix_switch_cases(T.fix_switch_cases(sw([nested(), ID("a")]))))
    show("None items", lambda: T.fix_switch_cases(sw(None)))
    show("empty items", lambda: T.fix_switch_cases(sw([])))
    show("non compound", lambda: T.fix_switch_cases(Switch(ID("v"), nested(), None)))
    show("None stmt", lambda: T.fix_switch_cases(Switch(ID("v"), None)))
    show("not a switch", lambda: T.fix_switch_cases(Compound([])))
    show("multi stmts first case", lambda: T.fix_switch_cases(sw([Case(ID("1"), [Case(ID("2"), [ID("a")]), Case(ID("3"), [ID("b")])])])))
    show("multi stmts last not case", lambda: T.fix_switch_cases(sw([Case(ID("1"), [Case(ID("2"), [ID("a")]), ID("b")])])))
    show("empty stmts", lambda: T.fix_switch_cases(sw([Case(ID("1"), [])])))
    show("None stmts", lambda: T.fix_switch_cases(sw([Default(None)])))
    show("stmt after case with None stmts", lambda: T.fix_switch_cases(sw([Case(ID("1"), [ID("q")]), ID("r")])))
    lst = [Case(ID("0"), [ID("k")])]
    # private helpers: only their effect is digested, not the shape of their return value
    show("_extract_nested_case direct", lambda: (T._extract_nested_case(nested(), lst), lst)[1])

    TypeDecl, Decl, Typename, PtrDecl, IdT, Typedef, ArrayDecl, FuncDecl, Struct = (
        c_ast.TypeDecl, c_ast.Decl, c_ast.Typename, c_ast.PtrDecl, c_ast.IdentifierType,
        c_ast.Typedef, c_ast.ArrayDecl, c_ast.FuncDecl, c_ast.Struct)

    def atomic_spec(inner, quals=("_Atomic",), outer_quals=(), coord="tdc"):
        # shape built by the parser for _Atomic(<inner>): TypeDecl -> Typename[_Atomic] -> inner
        return TypeDecl(None, list(outer_quals), None, Typename(None, list(quals), None, inner, "tnc"), coord)

    def decl(name, typ, quals=()):
        return Decl(name, list(quals), [], [], [], typ, None, None, "dc")

    def int_td(quals=(), coord=None, name=None):
        return TypeDecl(name, list(quals), None, IdT(["int"], "ic"), coord)

    show("atomic simple", lambda: T.fix_atomic_specifiers(decl("a", atomic_spec(int_td()))))
    show("atomic inner coord kept", lambda: T.fix_atomic_specifiers(decl("a", atomic_spec(int_td(coord="own")))))
    show("atomic outer quals", lambda: T.fix_atomic_specifiers(decl("a", atomic_spec(int_td(["volatile", "const"]), outer_quals=["const", "restrict"]), ["const"])))
    show("atomic ptr inside", lambda: T.fix_atomic_specifiers(decl("a", atomic_spec(PtrDecl([], int_td(), "pc")))))
    show("ptr to atomic", lambda: T.fix_atomic_specifiers(decl("a", PtrDecl(["const"], atomic_spec(int_td()), "pc"))))
    show("double nesting", lambda: T.fix_atomic_specifiers(decl("a", atomic_spec(PtrDecl([], atomic_spec(int_td()), "pc")))))
    show("array/func", lambda: T.fix_atomic_specifiers(decl("a", ArrayDecl(FuncDecl(None, atomic_spec(int_td()), "fc"), None, [], "ac"))))
    show("struct shared", lambda: (lambda st: (lambda d: (d, d.type.type is st))(T.fix_atomic_specifiers(decl("a", atomic_spec(TypeDecl(None, [], None, st, None))))))(Struct("s", None, "stc")))
    shared = atomic_spec(int_td())
    show("shared spec, two decls", lambda: [T.fix_atomic_specifiers(decl("a", shared)), T.fix_atomic_specifiers(decl("b", PtrDecl([], shared, "pc")))])
    show("shared spec untouched", lambda: shared)
    show("typename not atomic", lambda: T.fix_atomic_specifiers(decl("a", TypeDecl(None, [], None, Typename(None, ["const"], None, int_td(), "tnc"), "x"))))
    show("plain atomic qual", lambda: T.fix_atomic_specifiers(decl("a", int_td(["_Atomic"]))))
    show("plain atomic qual both", lambda: T.fix_atomic_specifiers(decl("a", int_td(["_Atomic"], name="keep"), ["_Atomic"])))
    show("no atomic", lambda: T.fix_atomic_specifiers(decl("a", PtrDecl([], int_td(["const"]), "pc"), ["const"])))
    show("typedef", lambda: T.fix_atomic_specifiers(Typedef("t", [], ["typedef"], atomic_spec(int_td()), "tc")))
    show("typename top", lambda: T.fix_atomic_specifiers(Typename(None, [], None, atomic_spec(int_td()), "tn")))
    show("typename top atomic itself", lambda: T.fix_atomic_specifiers(Typename(None, ["_Atomic"], None, int_td(), "tn")))
    show("no TypeDecl below", lambda: T.fix_atomic_specifiers(decl("a", Struct("s", None))))
    show("type None", lambda: T.fix_atomic_specifiers(decl("a", None)))
    show("chain ends in None", lambda: T.fix_atomic_specifiers(decl("a", PtrDecl([], None))))
    show("atomic typename under decl", lambda: T.fix_atomic_specifiers(decl("a", Typename(None, ["_Atomic"], None, int_td(), "tn"))))
    show("atomic typename under ptr", lambda: T.fix_atomic_specifiers(decl("a", PtrDecl([], Typename(None, ["_Atomic"], None, int_td(), "tn")))))
    show("same object returned", lambda: (lambda d: T.fix_atomic_specifiers(d) is d)(decl("a", atomic_spec(int_td()))))
    show("_once direct", lambda: (lambda d: (lambda r: (r if isinstance(r, bool) else r[1], d))(T._fix_atomic_specifiers_once(d)))(decl("a", atomic_spec(int_td()))))
    show("_copy_declarator_chain", lambda: (lambda n: (lambda c: (c, c is n, c.type is n.type, c.type.type is n.type.type))(T._copy_declarator_chain(n)))(PtrDecl(["const"], int_td(["volatile"]), "pc")))


def main():
    section_files()
    section_snippets()
    section_c_ast_api()
    section_generator()
    section_package()
    section_transforms()


if __name__ == "__main__":
    main()
